#!/bin/bash
# C20: copy /repo's working tree to a scratch directory, instrument it with yield
# points, build the harness with -race against it, run, clean up.
# exit 0 held | 1 VIOLATION | 2 build/harness trouble
set -u
cd "$(dirname "$(readlink -f "$0")")/.."
tier=${1:-quick}
export VERIF_DIR="$PWD"
export GOFLAGS=-mod=mod GOPROXY=off GOSUMDB=off GOTOOLCHAIN=local
GO=go1.26.8; command -v $GO >/dev/null 2>&1 || GO=/opt/veriftools/go1.26.8/bin/go
REPO=${VERIF_REPO:-/repo}
S=${TMPDIR:-/var/tmp}/kyber-verif-race-$$
trap '[ -n "${VERIF_KEEP:-}" ] || rm -rf "$S"' EXIT
mkdir -p "$S/kyber" bin || exit 2
rsync -a --exclude .git "$REPO/" "$S/kyber/" || exit 2
mkdir -p "$S/kyber/simyield" && cp sim/race/simyield/simyield.go "$S/kyber/simyield/" || exit 2
(cd sim && $GO build -o ../bin/yieldify ./tools/yieldify) 2>"$S/build.log" || { echo "BUILD-FAILED yieldify" >&2; cat "$S/build.log" >&2; exit 2; }
./bin/yieldify "$S/kyber" > "$S/yieldify.log" 2>&1 || { echo "BUILD-FAILED: yieldify could not rewrite the scratch copy" >&2; cat "$S/yieldify.log" >&2; exit 2; }
cat > "$S/race.mod" <<MOD
module verif/sim

go 1.25.0

require go.dedis.ch/kyber/v4 v4.0.0

replace go.dedis.ch/kyber/v4 => $S/kyber
MOD
cp "$REPO/go.sum" "$S/race.sum"
if ! (cd sim && $GO build -race -tags verif -modfile="$S/race.mod" -o "$S/verif-race" ./race/cmd) 2>"$S/build.log"; then
  echo "BUILD-FAILED (race harness or instrumented copy of /repo does not compile):" >&2; tail -40 "$S/build.log" >&2; exit 2
fi
export GORACE="log_path=$S/racelog halt_on_error=0 exitcode=0 history_size=3"
export VERIF_WORKERS=${VERIF_WORKERS:-14}
case "${2:-}" in */cold-*|cold-*) export VERIF_RACE_COLD=1;; esac   # replay of a cold-start violation
if [ "${VERIF_RACE_CMD:-check}" = check ]; then
  # cold-start phase: one run per PROCESS (N processes, N runs), so that the first use of every
  # package-level object of the library happens inside concurrent tasks. Its violations are real
  # violations; its counts go into the evidence of the main phase.
  N=64; [ "$tier" = thorough ] && N=512
  coldout=$(VERIF_RACE_COLD=1 VERIF_RUNS_TOTAL=$N VERIF_WORKERS=$N VERIF_BUDGET_S=120 VERIF_REPLAY_DIR="$S/cold" "$S/verif-race" check -prop C20 -tier "$tier" 2>&1); coldcode=$?
  coldv=$(echo "$coldout" | grep -c '^VIOLATION')
  if [ $coldcode -eq 1 ] && [ $coldv -gt 0 ]; then
    mkdir -p "${VERIF_REPLAY_DIR:-replays}"
    for f in "$S"/cold/C20-*.json; do [ -f "$f" ] && cp "$f" "${VERIF_REPLAY_DIR:-replays}/cold-$(basename "$f")"; done
    echo "$coldout" | grep -v '^check ' | sed "s#$S/cold/#${VERIF_REPLAY_DIR:-$PWD/replays}/cold-#"
    echo "(cold-start phase: $coldv violation(s) in $N single-run processes)"
    exit 1
  elif [ $coldcode -ne 0 ]; then
    echo "$coldout" | tail -5 >&2; echo "cold-start phase failed (exit $coldcode)" >&2; exit 2
  fi
  jq -n --argjson n $N '{cold_start_phase:{processes:$n, runs:$n, violations:0, note:"one run per process: first use of package-level state of the library happens inside concurrent tasks"}}' > "$S/extra.json"
  export VERIF_EXTRA_COV="$S/extra.json"
fi
"$S/verif-race" ${VERIF_RACE_CMD:-check} -prop C20 -tier "$tier" "${@:2}"
code=$?
# keep replays usable: the replay command rebuilds the same way
exit $code
