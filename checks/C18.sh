#!/bin/bash
# C18: (i) heterogeneous-cluster sessions (engine heterosim in bin/verif);
#      (ii) cross-build replay: the same seeded runs of the protocol engines under
#           {default, constantTime, constantTime+purego} and of the signing engine under
#           {default, generic} must give identical transcripts.
# exit 0 held | 1 VIOLATION | 2 build/harness trouble
set -u
cd "$(dirname "$(readlink -f "$0")")/.."
export VERIF_DIR="$PWD"
export GOFLAGS=-mod=mod GOPROXY=off GOSUMDB=off GOTOOLCHAIN=local
GO=go1.26.8; command -v $GO >/dev/null 2>&1 || GO=/opt/veriftools/go1.26.8/bin/go
tier=${1:-quick}
seed=${VERIF_SEED:-1}
if [ "$tier" = replay ]; then   # ./checks/C18.sh replay <file>
  f=$2
  if grep -q '"xbuild"' "$f" 2>/dev/null; then
    eng=$(jq -r .engine "$f"); pr=$(jq -r .property_of_engine "$f"); run=$(jq -r .run_index "$f"); s=$(jq -r .verif_seed "$f"); ta=$(jq -r .tags_a "$f"); tb=$(jq -r .tags_b "$f"); cmdp=$(jq -r .cmd "$f"); mode=$(jq -r .build "$f")
    T=$(mktemp -d /var/tmp/verif-xb.XXXXXX); trap 'rm -rf $T' EXIT
    REPO=${VERIF_REPO:-/repo}; [ -z "${VERIF_MODFLAG:-}" ] && cp $REPO/go.sum sim/go.sum
    if [ "$(jq -r '.inrun // false' "$f")" = true ]; then   # a violation raised inside a run of the forced-family trace
      tg=$ta
      if [ "$mode" = test ]; then (cd sim && $GO test -c -vet=off ${VERIF_MODFLAG:-} -tags "$tg" -o "$T/b-$tg" ./cmd/$cmdp) || exit 2; else (cd sim && $GO build ${VERIF_MODFLAG:-} -tags "$tg" -o "$T/b-$tg" ./cmd/$cmdp) || exit 2; fi
      VERIF_PROG_FAMILY=bn256 VERIF_ED_ONLY=1 "$T/b-$tg" trace -prop $pr -engine $eng -seed $s -from $run -to $((run+1)) -v 2>&1 | grep -v '^  ~ ' > "$T/t.txt"
      if grep -q '^run=.* class=-' "$T/t.txt"; then echo "NOT-REPRODUCED property=C18 (run $run of $eng completes without a violation)"; exit 0; fi
      echo "REPRODUCED property=C18 run $run of $eng"; grep -m2 -E '^run=|^  VIOLATION' "$T/t.txt" | cut -c1-600
      echo "VIOLATION property=C18 replay=$f"; exit 1
    fi
    for tg in "$ta" "$tb"; do
      if [ "$mode" = test ]; then (cd sim && $GO test -c -vet=off ${VERIF_MODFLAG:-} -tags "$tg" -o "$T/b-$tg" ./cmd/$cmdp) || exit 2; else (cd sim && $GO build ${VERIF_MODFLAG:-} -tags "$tg" -o "$T/b-$tg" ./cmd/$cmdp) || exit 2; fi
      VERIF_PROG_FAMILY=bn256 VERIF_ED_ONLY=1 "$T/b-$tg" trace -prop $pr -engine $eng -seed $s -from $run -to $((run+1)) -v 2>&1 | grep -v '^  ~ ' > "$T/t-$tg.txt"
    done
    if cmp -s "$T/t-$ta.txt" "$T/t-$tb.txt"; then echo "NOT-REPRODUCED property=C18 (transcripts identical under $ta and $tb)"; exit 0; fi
    echo "REPRODUCED property=C18 transcripts of $eng run $run differ between builds [$ta] and [$tb]"; diff "$T/t-$ta.txt" "$T/t-$tb.txt" | head -20
    echo "VIOLATION property=C18 replay=$f"; exit 1
  fi
  ./run build || exit 2
  exec ./bin/verif replay "$f"
fi
K=40; [ "$tier" = thorough ] && K=200
T=$(mktemp -d /var/tmp/verif-xb.XXXXXX); trap 'rm -rf $T' EXIT
mkdir -p bin replays evidence
REPO=${VERIF_REPO:-/repo}; [ -z "${VERIF_MODFLAG:-}" ] && cp $REPO/go.sum sim/go.sum
t0=$(date +%s)
build() { # cmd tags mode out
  if [ "$3" = test ]; then (cd sim && $GO test -c -vet=off ${VERIF_MODFLAG:-} -tags "$2" -o "$4" ./cmd/$1) 2>"$T/build.log"; else (cd sim && $GO build ${VERIF_MODFLAG:-} -tags "$2" -o "$4" ./cmd/$1) 2>"$T/build.log"; fi || { echo "BUILD-FAILED ($1 with tags $2):" >&2; tail -30 "$T/build.log" >&2; exit 2; }
}
viol=0; pairs=0; runs_compared=0; lines=0
samples="[]"
compare() { # cmd mode engine prop tagsA tagsB
  local cmdp=$1 mode=$2 eng=$3 pr=$4 ta=$5 tb=$6
  for tg in "$ta" "$tb"; do
    [ -x "$T/$cmdp-$tg" ] || build $cmdp "$tg" $mode "$T/$cmdp-$tg"
    [ -f "$T/$eng-$tg.txt" ] || VERIF_PROG_FAMILY=bn256 VERIF_ED_ONLY=1 "$T/$cmdp-$tg" trace -prop $pr -engine $eng -seed $seed -from 0 -to $K -v 2>&1 | grep -v '^  ~ ' > "$T/$eng-$tg.txt"
  done
  pairs=$((pairs+1)); runs_compared=$((runs_compared+K)); lines=$((lines+$(wc -l < "$T/$eng-$ta.txt")))
  # violations raised INSIDE the traced runs of the engines that belong to C18 itself (replicated op
  # logs of the forced BN family and of mod.Int): the transcripts would agree on them
  if [ "$pr" = C18 ] && [ ! -f "$T/$eng.inrun" ]; then
    : > "$T/$eng.inrun"
    grep '^run=' "$T/$eng-$ta.txt" | grep -v ' class=- ' | head -3 | while read -r line; do
      run=$(echo "$line" | grep -o '^run=[0-9]*' | cut -d= -f2); cls=$(echo "$line" | grep -o ' class=[^ ]*' | cut -d= -f2)
      f="${VERIF_REPLAY_DIR:-replays}/C18-inrun-$eng-$seed-$run.json"
      jq -n --arg e $eng --arg p $pr --argjson r $run --argjson s $seed --arg a "$ta" --arg c $cmdp --arg m $mode --arg cl "$cls" \
         '{property:"C18", xbuild:true, inrun:true, "class":$cl, engine:$e, property_of_engine:$p, run_index:$r, verif_seed:$s, tags_a:$a, tags_b:$a, cmd:$c, build:$m}' > "$f"
      case "$f" in /*) echo "VIOLATION property=C18 replay=$f";; *) echo "VIOLATION property=C18 replay=$PWD/$f";; esac
      echo "  class=$cls"; grep -A3 "^run=$run " "$T/$eng-$ta.txt" | grep -m1 '^  VIOLATION' | cut -c1-600
      echo x >> "$T/$eng.inrun"
    done
    viol=$((viol+$(wc -l < "$T/$eng.inrun")))
  fi
  if ! cmp -s "$T/$eng-$ta.txt" "$T/$eng-$tb.txt"; then
    # first differing run
    run=$(diff <(grep -n '^run=' "$T/$eng-$ta.txt" | cut -d' ' -f1,3) <(grep -n '^run=' "$T/$eng-$tb.txt" | cut -d' ' -f1,3) | grep -o 'run=[0-9]*' | head -1 | cut -d= -f2)
    run=${run:-0}
    f="${VERIF_REPLAY_DIR:-replays}/C18-xbuild-$eng-$seed-$run-$(echo "$ta-$tb" | tr ',' '+').json"
    jq -n --arg e $eng --arg p $pr --argjson r $run --argjson s $seed --arg a "$ta" --arg b "$tb" --arg c $cmdp --arg m $mode \
       '{property:"C18", xbuild:true, "class":("C18/xbuild/transcript-differs/"+$e), engine:$e, property_of_engine:$p, run_index:$r, verif_seed:$s, tags_a:$a, tags_b:$b, cmd:$c, build:$m}' > "$f"
    case "$f" in /*) echo "VIOLATION property=C18 replay=$f";; *) echo "VIOLATION property=C18 replay=$PWD/$f";; esac
    echo "  class=C18/xbuild/transcript-differs/$eng  builds [$ta] vs [$tb], first differing run $run"
    diff "$T/$eng-$ta.txt" "$T/$eng-$tb.txt" | head -8 | sed 's/^/  /'
    viol=$((viol+1))
  fi
}
tm() { [ -n "${VERIF_TIMING:-}" ] && echo "T+$SECONDS $1" >&2; return 0; }
tm start
# all binaries first, then every transcript in parallel (16 cores); compare() finds the files
for tg in verif verif,constantTime verif,constantTime,purego; do build xbuild "$tg" test "$T/xbuild-$tg"; done
for tg in verif verif,generic; do build xbuildbn "$tg" plain "$T/xbuildbn-$tg"; done
tm built
gen() { # cmd engine prop tags runs   (long ranges are traced in 8 chunks side by side and concatenated in order)
  local n=1 i; [ $5 -ge 400 ] && n=8
  for i in $(seq 0 $((n-1))); do
    VERIF_PROG_FAMILY=bn256 VERIF_ED_ONLY=1 "$T/$1-$4" trace -prop $3 -engine $2 -seed $seed -from $(( $5*i/n )) -to $(( $5*(i+1)/n )) -v 2>&1 | grep -v '^  ~ ' > "$T/$2-$4.part$i" &
  done
  wait
  for i in $(seq 0 $((n-1))); do cat "$T/$2-$4.part$i"; done > "$T/$2-$4.txt.tmp"; rm -f "$T/$2-$4".part*; mv "$T/$2-$4.txt.tmp" "$T/$2-$4.txt"
}
for tg in verif verif,constantTime verif,constantTime,purego; do
  for e in dsssim:C12 vsssim:C10 dkgsim:C11 pvsssim:C13; do gen xbuild ${e%:*} ${e#*:} "$tg" $K & done
  gen xbuild modsim C18 "$tg" $((K*50)) &
done
for tg in verif verif,generic; do
  gen xbuildbn signsim C09 "$tg" $K &
  gen xbuildbn heterosim C18 "$tg" $((K*50)) &
done
wait
tm traced
for e in dsssim:C12 vsssim:C10 dkgsim:C11 pvsssim:C13; do
  compare xbuild test ${e%:*} ${e#*:} verif verif,constantTime
  compare xbuild test ${e%:*} ${e#*:} verif verif,constantTime,purego
done
# group/mod.Int itself (math/big vs compatible/bigmod): replicated op logs, many cheap runs
K=$((K*50))
compare xbuild test modsim C18 verif verif,constantTime
compare xbuild test modsim C18 verif verif,constantTime,purego
K=$((K/50))
compare xbuildbn plain signsim C09 verif verif,generic
K=$((K*50))   # the bn256 edge-limb programs are cheap: fifty times as many runs
compare xbuildbn plain heterosim C18 verif verif,generic
K=$((K/50))
tm compared
smp=$(head -c 600 "$T/dkgsim-verif,constantTime.txt" | jq -Rs .)
xb_wall=$(( $(date +%s) - t0 ))
jq -n --argjson pairs $pairs --argjson runs $runs_compared --argjson lines $lines --argjson v $viol --argjson w $xb_wall --argjson k $K --argjson smp "$smp" \
  '{cross_build:{build_pairs_compared:$pairs, runs_per_pair:$k, run_transcripts_compared:$runs, transcript_lines_compared:$lines, differing_pairs:$v, wall_s:$w,
    builds:["default","constantTime","constantTime+purego","generic (signing engine and bn256 edge-limb replicated programs)","mod.Int op logs under default / constantTime / constantTime+purego"], transcript_sample:$smp,
    note:"a transcript = the full event log of a run: every delivery and verdict, message and packet digests, output shares, keys and signatures"}}' > "$T/extra.json"
if [ -n "${VERIF_MODFLAG:-}" ]; then
  (cd sim && $GO test -c -vet=off $VERIF_MODFLAG -tags verif -o "$T/verif" ./cmd/verif) || exit 2
  VERIF_EXTRA_COV="$T/extra.json" "$T/verif" check -prop C18 -tier "$tier"
else
  ./run build || exit 2
  VERIF_EXTRA_COV="$T/extra.json" ./bin/verif check -prop C18 -tier "$tier"
fi
code=$?
if [ $viol -gt 0 ]; then
  # the evidence file was written by the harness without the cross-build violations: add them
  ev=${VERIF_REPLAY_DIR:-evidence}/C18.json
  tmp=$(mktemp); jq --argjson v $viol '.violations += $v' $ev > $tmp && mv $tmp $ev
  [ $code -eq 0 ] && code=1
fi
exit $code
