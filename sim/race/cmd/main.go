// Command verif-race is the C20 harness binary: built with -race against a
// scratch copy of kyber that tools/yieldify has instrumented.
package main

import (
	"verif/sim/core"
	_ "verif/sim/race/racesim"
)

func extras(prop string) (map[string]any, []string) {
	return map[string]any{
			"race_detector":           "go build -race; GORACE=log_path=… halt_on_error=0; reports are attributed to the two innermost kyber frames",
			"uncontrolled_complement": "not part of this check",
		}, []string{
			"yield points exist only in kyber's own source (scratch copy rewritten by tools/yieldify); interleavings inside dependencies (circl, gnark-crypto, kilic, x/crypto, math/big) are not explored",
			"field-arithmetic files and internal/protobuf carry no yield points",
			"the race detector keeps a bounded access history per memory cell and can miss a race",
			"the baton is //go:norace: it adds no happens-before edge, so serialised tasks are still concurrent for the detector",
			"shared objects are built before the tasks start; every task writes only into its own receivers",
		}
}

func main() { core.Main(extras) }
