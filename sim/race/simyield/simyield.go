// Package simyield is injected into a scratch copy of kyber by the C20 engine.
// Point() is called at every instrumented program point; when a scheduler is
// installed it decides, from the schedule of the current run, whether the
// calling task keeps running or hands the baton to another task and spins.
//
// Everything here is //go:norace and uses only plain loads/stores on
// fixed-size arrays (copy, append, maps and channels carry race-detector hooks
// inside the runtime): the baton is invisible to the race detector, so it
// creates no happens-before edges between tasks. The detector therefore still
// sees the tasks as concurrent and reports their conflicting accesses, while
// the actual execution is serialised and fully determined by the schedule.
package simyield

import "runtime"

const maxTasks = 8
const maxPre = 8
const maxTrace = 64

var (
	active   bool
	turn     int // task that holds the baton
	steps    int // global count of yield points passed in this run
	preempt  [maxPre]int
	npre     int
	ipre     int
	prio     [maxTasks]int // tasks in priority order (front = highest)
	finished [maxTasks]bool
	ntask    int
	trace    [maxTrace][3]int
	ntrace   int
)

//go:norace
func Point() {
	if !active {
		return
	}
	steps++
	if ipre < npre && steps == preempt[ipre] {
		ipre++
		me := turn
		demote(me)
		if nx := pick(); nx != me {
			record(steps, me, nx)
			turn = nx
			wait(me)
		}
	}
}

//go:norace
func record(s, a, b int) {
	if ntrace < maxTrace {
		trace[ntrace] = [3]int{s, a, b}
		ntrace++
	}
}

//go:norace
func demote(t int) {
	for i := 0; i < ntask; i++ {
		if prio[i] == t {
			for j := i; j+1 < ntask; j++ {
				prio[j] = prio[j+1]
			}
			prio[ntask-1] = t
			return
		}
	}
}

//go:norace
func pick() int {
	for i := 0; i < ntask; i++ {
		if !finished[prio[i]] {
			return prio[i]
		}
	}
	return -1
}

//go:norace
func wait(me int) {
	for turn != me {
		runtime.Gosched()
	}
}

// Steps returns the number of yield points passed so far in this run.
//
//go:norace
func Steps() int { return steps }

// Begin installs a schedule: n tasks, initial priority order, preemption steps (sorted).
//
//go:norace
func Begin(n int, order []int, preemptAt []int) {
	ntask = n
	for i := 0; i < n && i < maxTasks; i++ {
		prio[i] = order[i]
		finished[i] = false
	}
	npre = 0
	for i := 0; i < len(preemptAt) && i < maxPre; i++ {
		preempt[i] = preemptAt[i]
		npre++
	}
	ipre = 0
	steps = 0
	ntrace = 0
	turn = pick()
	active = true
}

// Enter blocks the calling task until it holds the baton for the first time.
//
//go:norace
func Enter(me int) { wait(me) }

// Leave marks the task finished and passes the baton on.
//
//go:norace
func Leave(me int) {
	finished[me] = true
	if nx := pick(); nx >= 0 {
		record(steps, me, nx)
		turn = nx
	}
}

// End removes the schedule and returns the hand-off trace (step, from, to).
//
//go:norace
func End() [][3]int {
	active = false
	out := make([][3]int, ntrace)
	for i := 0; i < ntrace; i++ {
		out[i] = trace[i]
	}
	return out
}
