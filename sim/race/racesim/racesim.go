// Package racesim decides C20. Caller goroutines share values, suites and
// scheme objects for reading; a seeded baton scheduler (package simyield,
// injected into a scratch copy of kyber by tools/yieldify) decides at every
// instrumented program point who runs. The baton is invisible to the Go race
// detector, so the detector still treats the tasks as concurrent: one seed is
// one reproducible interleaving AND a reproducible set of race reports.
// Oracles: (1) the race detector's reports, (2) every call returns what the
// same call returns in a sequential execution on a fresh identical world,
// (3) shared objects encode to the same bytes afterwards.
package racesim

import (
	"bytes"
	"crypto/cipher"
	"crypto/sha256"
	"fmt"
	"os"
	"regexp"
	"sort"
	"strings"
	"sync"

	"go.dedis.ch/kyber/v4"
	"go.dedis.ch/kyber/v4/group/edwards25519"
	"go.dedis.ch/kyber/v4/group/edwards25519vartime"
	"go.dedis.ch/kyber/v4/group/p256"
	"go.dedis.ch/kyber/v4/pairing"
	circl "go.dedis.ch/kyber/v4/pairing/bls12381/circl"
	gnark "go.dedis.ch/kyber/v4/pairing/bls12381/gnark"
	kilic "go.dedis.ch/kyber/v4/pairing/bls12381/kilic"
	"go.dedis.ch/kyber/v4/pairing/bn254"
	"go.dedis.ch/kyber/v4/pairing/bn256"
	"go.dedis.ch/kyber/v4/proof"
	"go.dedis.ch/kyber/v4/share"
	"go.dedis.ch/kyber/v4/sign/bdn"
	"go.dedis.ch/kyber/v4/sign/bls"
	"go.dedis.ch/kyber/v4/sign/eddsa"
	"go.dedis.ch/kyber/v4/sign/schnorr"
	"go.dedis.ch/kyber/v4/simyield"

	"verif/sim/core"
)

type Engine struct{}

func init() {
	core.Register(Engine{})
	core.RegisterCheck(core.CheckSpec{Property: "C20", Engines: []string{"racesim"}, Level: "exploration"})
}

func (Engine) Name() string { return "racesim" }
func (Engine) Runs(prop, tier string) int {
	if tier == "thorough" {
		return 400000
	}
	return 6000
}
func (Engine) Real() []string {
	return []string{"all of kyber, rewritten in a scratch copy: simyield.Point() at every function entry and before every statement of the point/scalar/suite/mask/poly/scheme files (field arithmetic and internal/protobuf untouched)", "Go race detector (-race build)"}
}
func (Engine) Stubs() []string {
	return []string{"caller tasks (2..4 goroutines performing tape-drawn read-only calls on shared objects)", "baton scheduler (PCT-style: priority order + up to 3 preemption points over the measured yield-point count), //go:norace so that it adds no happens-before edges"}
}
func (Engine) Rule() string {
	return "one run = one world of shared objects for one group instance or scheme, 2..4 tasks x <=6 read-only calls, one schedule (priority order, <=3 preemption steps); executed once sequentially (reference) and once under the schedule; signature = hash of (group, calls, hand-off trace); non-trivial = at least one preemption actually switched tasks"
}

func viol(oracle, class, format string, a ...any) *core.Violation {
	return &core.Violation{Property: "C20", Engine: "racesim", Oracle: oracle, Class: "C20/" + class, Detail: fmt.Sprintf(format, a...)}
}

// ---------------------------------------------------------------- groups

type grp struct {
	name  string
	mk    func() kyber.Group
	suite func() pairing.Suite
	which int
}

func groups() []grp {
	gs := []grp{
		{name: "ed25519", mk: func() kyber.Group { return edwards25519.NewBlakeSHA256Ed25519() }},
		{name: "ed25519-vartime-suite", mk: func() kyber.Group { return edwards25519vartime.NewBlakeSHA256Ed25519(false) }},
		{name: "vartime-proj-ed25519", mk: func() kyber.Group {
			return new(edwards25519vartime.ProjectiveCurve).Init(edwards25519vartime.ParamEd25519(), false)
		}},
		{name: "vartime-ext-ed25519", mk: func() kyber.Group {
			return new(edwards25519vartime.ExtendedCurve).InitCurve(edwards25519vartime.ParamEd25519(), false)
		}},
		{name: "vartime-ext-1174", mk: func() kyber.Group {
			return new(edwards25519vartime.ExtendedCurve).InitCurve(edwards25519vartime.Param1174(), false)
		}},
		{name: "p256", mk: func() kyber.Group { return p256.NewBlakeSHA256P256() }},
		{name: "qr512", mk: func() kyber.Group { return p256.NewBlakeSHA256QR512() }},
	}
	add := func(prefix string, s func() pairing.Suite) {
		gs = append(gs, grp{name: prefix + "-g1", suite: s, which: 1}, grp{name: prefix + "-g2", suite: s, which: 2}, grp{name: prefix + "-gt", suite: s, which: 3})
	}
	add("bn256", func() pairing.Suite { return bn256.NewSuite() })
	add("bn254", func() pairing.Suite { return bn254.NewSuite() })
	add("bls-kilic", func() pairing.Suite { return kilic.NewBLS12381Suite() })
	add("bls-circl", func() pairing.Suite { return circl.NewSuite() })
	add("bls-gnark", func() pairing.Suite { return gnark.NewSuite() })
	return gs
}

// ---------------------------------------------------------------- world of shared objects

type world struct {
	g      kyber.Group
	ps     pairing.Suite
	P, Q   kyber.Point // shared points, left in non-normalised internal form
	s, s2  kyber.Scalar
	u      kyber.Scalar // a scalar that came in as BYTES (a decoded value, or a freshly generated key): possibly not in reduced form
	A1, A2 kyber.Point  // G1/G2 operands of a pairing
	// schemes (Ed25519 / pairing suite dependent)
	edSuite *edwards25519.SuiteEd25519
	schPub  kyber.Point
	schSig  []byte
	edPubB  []byte
	edPub   kyber.Point
	edSig   []byte
	blsPub  kyber.Point
	blsSig  []byte
	blsSch  interface {
		Verify(kyber.Point, []byte, []byte) error
	}
	pred   proof.Predicate
	pval   map[string]kyber.Point
	pf     []byte
	pub    *share.PubPoly
	shr    *share.PriShare
	mask   *bdn.Mask
	msg    []byte
	stream interface{ XORKeyStream(dst, src []byte) }
}

func sc(g kyber.Group, seed []byte, i int) kyber.Scalar {
	h := sha256.Sum256(append(append([]byte{}, seed...), byte(i)))
	return g.Scalar().SetBytes(append(h[:], h[:16]...))
}

func try(f func()) bool { return core.Guard(f) == nil }

func newWorld(gr grp, seed []byte) *world {
	w := &world{msg: []byte("shared message")}
	if gr.suite != nil {
		w.ps = gr.suite()
		switch gr.which {
		case 1:
			w.g = w.ps.G1()
		case 2:
			w.g = w.ps.G2()
		default:
			w.g = w.ps.GT()
		}
	} else {
		w.g = gr.mk()
	}
	g := w.g
	w.s, w.s2 = sc(g, seed, 1), sc(g, seed, 2)
	// shared scalars are not only results of arithmetic: keys are generated (Ed25519 keys are clamped,
	// not reduced) and scalars are decoded from the wire (the Ed25519 decoder accepts any 32 bytes).
	// Seed C20e: Equal reduced a non-canonical operand in place.
	w.u = w.s.Clone()
	try(func() {
		if kg, ok := g.(interface {
			NewKey(stream cipher.Stream) kyber.Scalar
		}); ok && seed[0]&1 == 0 {
			w.u = kg.NewKey(g.(interface{ XOF([]byte) kyber.XOF }).XOF(seed))
			return
		}
		h := sha256.Sum256(append([]byte("noncanonical"), seed...))
		if g.ScalarLen() <= len(h) {
			b := h[:g.ScalarLen()]
			for i := range b {
				b[i] |= 0xf0 // large in either byte order
			}
			x := g.Scalar()
			if x.UnmarshalBinary(b) == nil {
				w.u = x
			}
		}
	})
	if gr.which == 3 {
		a := w.ps.G1().Point().Mul(sc(w.ps.G1(), seed, 3), nil)
		b := w.ps.G2().Point().Mul(sc(w.ps.G2(), seed, 4), nil)
		w.P = w.ps.Pair(a, b)
		w.Q = w.ps.GT().Point().Add(w.P, w.P)
	} else {
		a, b := g.Point().Mul(sc(g, seed, 3), nil), g.Point().Mul(sc(g, seed, 4), nil)
		w.P = g.Point().Add(a, b) // never marshalled: internal coordinates are whatever Add left
		w.Q = g.Point().Mul(w.s2, w.P)
	}
	if w.ps != nil {
		w.A1 = w.ps.G1().Point().Add(w.ps.G1().Point().Mul(sc(w.ps.G1(), seed, 5), nil), w.ps.G1().Point().Base())
		w.A2 = w.ps.G2().Point().Add(w.ps.G2().Point().Mul(sc(w.ps.G2(), seed, 6), nil), w.ps.G2().Point().Base())
		try(func() {
			s := bls.NewSchemeOnG1(w.ps)
			x := sc(w.ps.G2(), seed, 7)
			w.blsPub = w.ps.G2().Point().Add(w.ps.G2().Point().Mul(x, nil), w.ps.G2().Point().Null())
			sig, err := s.Sign(x, w.msg)
			if err == nil {
				w.blsSig, w.blsSch = sig, s
			}
		})
		try(func() {
			kg := w.ps.G2()
			var pubs []kyber.Point
			for i := 0; i < 5; i++ {
				pubs = append(pubs, kg.Point().Mul(sc(kg, seed, 20+i), nil))
			}
			m, err := bdn.NewMask(kg, pubs, nil)
			if err == nil {
				_ = m.SetBit(1, true)
				_ = m.SetBit(3, true)
				w.mask = m
			}
		})
	}
	if gr.name == "ed25519" {
		ed := edwards25519.NewBlakeSHA256Ed25519()
		w.edSuite = ed
		x := sc(ed, seed, 8)
		w.schPub = ed.Point().Add(ed.Point().Mul(x, nil), ed.Point().Null())
		w.schSig, _ = schnorr.Sign(ed, x, w.msg)
		e := eddsa.NewEdDSA(ed.XOF(seed))
		w.edPub = e.Public
		w.edSig, _ = e.Sign(w.msg)
		w.pred = proof.Or(proof.Rep("X", "x", "B"), proof.Rep("Y", "y", "B"))
		w.pval = map[string]kyber.Point{"B": ed.Point().Base(), "X": ed.Point().Mul(x, nil), "Y": ed.Point().Mul(sc(ed, seed, 9), nil)}
		sval := map[string]kyber.Scalar{"x": x}
		w.pf, _ = proof.HashProve(ed, "race", w.pred.Prover(ed, sval, w.pval, map[proof.Predicate]int{w.pred: 0}))
		w.stream = ed.RandomStream()
	}
	if gr.which != 3 {
		try(func() {
			pri := share.NewPriPoly(g, 3, sc(g, seed, 10), g.(interface{ XOF([]byte) kyber.XOF }).XOF(seed))
			w.pub = pri.Commit(w.P)
			w.shr = pri.Eval(2)
		})
		if w.pub == nil {
			try(func() {
				pri := share.CoefficientsToPriPoly(g, []kyber.Scalar{sc(g, seed, 10), sc(g, seed, 11), sc(g, seed, 12)})
				w.pub = pri.Commit(w.P)
				w.shr = pri.Eval(2)
			})
		}
	}
	return w
}

// ---------------------------------------------------------------- the read-only call set

type call struct {
	name  string
	ok    func(w *world) bool
	f     func(w *world) []byte
	nodet bool // result legitimately depends on the order of calls (random draws)
}

func enc(p kyber.Point) []byte {
	b, err := p.MarshalBinary()
	if err != nil {
		return []byte("ERR:" + err.Error())
	}
	return b
}
func encS(s kyber.Scalar) []byte {
	b, err := s.MarshalBinary()
	if err != nil {
		return []byte("ERR:" + err.Error())
	}
	return b
}
func errB(err error) []byte {
	if err == nil {
		return []byte("ok")
	}
	return []byte("error")
}

var always = func(*world) bool { return true }

// orUnsupported runs f and turns a panic ("unsupported operation" of a target group) into a fixed
// result. It recovers locally: core.Guard records the stack in a package variable, which two tasks
// panicking at once would race on.
func orUnsupported(f func() []byte) (out []byte) {
	defer func() {
		if recover() != nil {
			out = []byte("unsupported")
		}
	}()
	return f()
}

var calls = []call{
	{"P.MarshalBinary", always, func(w *world) []byte { return enc(w.P) }, false},
	{"Q.MarshalBinary", always, func(w *world) []byte { return enc(w.Q) }, false},
	{"P.MarshalTo", always, func(w *world) []byte { var b bytes.Buffer; _, _ = w.P.MarshalTo(&b); return b.Bytes() }, false},
	{"P.String", always, func(w *world) []byte { return []byte(w.P.String()) }, false},
	{"P.MarshalSize", always, func(w *world) []byte { return []byte{byte(w.P.MarshalSize())} }, false},
	{"P.Equal(Q)", always, func(w *world) []byte { return []byte(fmt.Sprint(w.P.Equal(w.Q), w.Q.Equal(w.P), w.P.Equal(w.P))) }, false},
	{"P.Clone", always, func(w *world) []byte { return enc(w.P.Clone()) }, false},
	{"P.Data", func(w *world) bool { return w.P.EmbedLen() > 0 }, func(w *world) []byte { d, err := w.P.Data(); return append(d, errB(err)...) }, false},
	// constructors: values a task makes for itself. They write only into the task's own object - unless
	// the library initialises something shared on first use (seed C20i: bn254's GT generator was
	// memoised lazily in a package variable). These matter most in a process that has not used the
	// group yet: checks/C20.sh runs a cold-start phase of one run per process.
	{"local.Base()", always, func(w *world) []byte { return orUnsupported(func() []byte { return enc(w.g.Point().Base()) }) }, false},
	{"local.Mul(s,nil)", always, func(w *world) []byte { return orUnsupported(func() []byte { return enc(w.g.Point().Mul(w.s, nil)) }) }, false},
	{"local.Null()+Scalar.One()", always, func(w *world) []byte { return append(enc(w.g.Point().Null()), encS(w.g.Scalar().One())...) }, false},
	{"local.Add(P,Q)", always, func(w *world) []byte { return enc(w.g.Point().Add(w.P, w.Q)) }, false},
	{"local.Sub(P,Q)", always, func(w *world) []byte { return enc(w.g.Point().Sub(w.P, w.Q)) }, false},
	{"local.Neg(P)", always, func(w *world) []byte { return enc(w.g.Point().Neg(w.P)) }, false},
	{"local.Mul(s,P)", always, func(w *world) []byte { return enc(w.g.Point().Mul(w.s, w.P)) }, false},
	{"local.Set(P)", always, func(w *world) []byte { return enc(w.g.Point().Set(w.P)) }, false},
	{"s.MarshalBinary", always, func(w *world) []byte { return encS(w.s) }, false},
	{"s.String", always, func(w *world) []byte { return []byte(w.s.String()) }, false},
	{"s.Equal(s2)", always, func(w *world) []byte { return []byte(fmt.Sprint(w.s.Equal(w.s2), w.s.Equal(w.s))) }, false},
	{"s.Clone", always, func(w *world) []byte { return encS(w.s.Clone()) }, false},
	{"u.Equal(s)", always, func(w *world) []byte { return []byte(fmt.Sprint(w.u.Equal(w.s), w.s.Equal(w.u), w.u.Equal(w.u))) }, false},
	{"u.MarshalBinary+String", always, func(w *world) []byte { return append(encS(w.u), []byte(w.u.String())...) }, false},
	{"u.Clone", always, func(w *world) []byte { return encS(w.u.Clone()) }, false},
	{"local.Mul(u,P)", always, func(w *world) []byte { return enc(w.g.Point().Mul(w.u, w.P)) }, false},
	{"local.ScalarOps(s,s2)", always, func(w *world) []byte {
		a := w.g.Scalar().Add(w.s, w.s2)
		m := w.g.Scalar().Mul(w.s, w.s2)
		n := w.g.Scalar().Neg(w.s)
		return append(append(encS(a), encS(m)...), encS(n)...)
	}, false},
	{"group.String+lens", always, func(w *world) []byte { return []byte(fmt.Sprint(w.g.String(), w.g.PointLen(), w.g.ScalarLen())) }, false},
	{"Pair(A1,A2)", func(w *world) bool { return w.ps != nil }, func(w *world) []byte { return enc(w.ps.Pair(w.A1, w.A2)) }, false},
	{"ValidatePairing", func(w *world) bool { return w.ps != nil }, func(w *world) []byte {
		return []byte(fmt.Sprint(w.ps.ValidatePairing(w.A1, w.A2, w.A1, w.A2)))
	}, false},
	{"A1.MarshalBinary+A2", func(w *world) bool { return w.ps != nil }, func(w *world) []byte { return append(enc(w.A1), enc(w.A2)...) }, false},
	{"bls.Verify", func(w *world) bool { return w.blsSch != nil }, func(w *world) []byte { return errB(w.blsSch.Verify(w.blsPub, w.msg, w.blsSig)) }, false},
	{"bdn.Mask.Clone", func(w *world) bool { return w.mask != nil }, func(w *world) []byte {
		c := w.mask.Clone()
		_ = c.SetBit(0, true)
		return append(w.mask.Mask(), c.Mask()...)
	}, false},
	{"bdn.AggregatePublicKeys(mask)", func(w *world) bool { return w.mask != nil }, func(w *world) []byte {
		// first use of the mask's per-key terms happens here, concurrently (seed C20h computed them lazily)
		p, err := bdn.NewSchemeOnG1(w.ps).AggregatePublicKeys(w.mask)
		if err != nil {
			return errB(err)
		}
		return enc(p)
	}, false},
	{"bdn.AggregatePublicKeys(clone)", func(w *world) bool { return w.mask != nil }, func(w *world) []byte {
		p, err := bdn.NewSchemeOnG1(w.ps).AggregatePublicKeys(w.mask.Clone())
		if err != nil {
			return errB(err)
		}
		return enc(p)
	}, false},
	{"bdn.Mask.Participants", func(w *world) bool { return w.mask != nil }, func(w *world) []byte {
		var out []byte
		for _, p := range w.mask.Participants() {
			out = append(out, enc(p)...)
		}
		return append(out, byte(w.mask.CountEnabled()))
	}, false},
	{"schnorr.Verify", func(w *world) bool { return w.schSig != nil }, func(w *world) []byte { return errB(schnorr.Verify(w.edSuite, w.schPub, w.msg, w.schSig)) }, false},
	{"eddsa.Verify", func(w *world) bool { return w.edSig != nil }, func(w *world) []byte { return errB(eddsa.Verify(w.edPub, w.msg, w.edSig)) }, false},
	{"proof.HashVerify", func(w *world) bool { return w.pf != nil }, func(w *world) []byte {
		return errB(proof.HashVerify(w.edSuite, "race", w.pred.Verifier(w.edSuite, w.pval), w.pf))
	}, false},
	{"PubPoly.Eval", func(w *world) bool { return w.pub != nil }, func(w *world) []byte { return enc(w.pub.Eval(3).V) }, false},
	{"PubPoly.Check", func(w *world) bool { return w.pub != nil }, func(w *world) []byte { return []byte(fmt.Sprint(w.pub.Check(w.shr))) }, false},
	{"PubPoly.Commit", func(w *world) bool { return w.pub != nil }, func(w *world) []byte { return enc(w.pub.Commit()) }, false},
	{"suite.RandomStream.draw", func(w *world) bool { return w.stream != nil }, func(w *world) []byte {
		b := make([]byte, 16)
		w.stream.XORKeyStream(b, b)
		return b
	}, true},
	{"suite.Hash+XOF", func(w *world) bool { return w.edSuite != nil }, func(w *world) []byte {
		h := w.edSuite.Hash()
		h.Write(w.msg)
		x := w.edSuite.XOF(w.msg)
		o := make([]byte, 8)
		x.Read(o)
		return append(h.Sum(nil), o...)
	}, false},
}

// ---------------------------------------------------------------- race log

var raceLog string
var raceOff int64

func init() {
	// GORACE=log_path=<prefix> makes the runtime write reports to <prefix>.<pid>
	for _, kv := range strings.Fields(os.Getenv("GORACE")) {
		if strings.HasPrefix(kv, "log_path=") {
			raceLog = fmt.Sprintf("%s.%d", strings.TrimPrefix(kv, "log_path="), os.Getpid())
		}
	}
}

var frameRe = regexp.MustCompile(`(?m)^  (\S+)\(`)

// newRaceReports returns the race reports written since the last call, each reduced to the two
// innermost frames that lie in kyber.
func newRaceReports() (reports []string, raw string) {
	if raceLog == "" {
		return nil, ""
	}
	b, err := os.ReadFile(raceLog)
	if err != nil || int64(len(b)) <= raceOff {
		return nil, ""
	}
	raw = string(b[raceOff:])
	raceOff = int64(len(b))
	for _, rep := range strings.Split(raw, "WARNING: DATA RACE")[1:] {
		var sides []string
		for _, part := range strings.Split(rep, "\n\n") {
			if !(strings.Contains(part, " by goroutine") || strings.Contains(part, "by main goroutine")) || strings.HasPrefix(strings.TrimSpace(part), "Goroutine") {
				continue
			}
			// outermost kyber frame = the API method the task called; innermost = where the access is
			inner, outer := "", ""
			for _, m := range frameRe.FindAllStringSubmatch(part, -1) {
				if strings.Contains(m[1], "go.dedis.ch/kyber/v4") && !strings.Contains(m[1], "simyield") {
					f := strings.TrimPrefix(m[1], "go.dedis.ch/kyber/v4/")
					if inner == "" {
						inner = f
					}
					outer = f
				}
			}
			fn := "(outside kyber)"
			if outer != "" {
				fn = outer
				if inner != outer {
					fn = outer + "[" + inner + "]"
				}
			}
			sides = append(sides, fn)
			if len(sides) == 2 {
				break
			}
		}
		sort.Strings(sides)
		reports = append(reports, strings.Join(sides, " <-> "))
	}
	return reports, raw
}

// ---------------------------------------------------------------- one run

func (Engine) RunOne(t *core.Tape, prop, tier string, info *core.RunInfo) *core.Violation {
	gs := groups()
	gr := gs[t.Intn("cfg.group", len(gs))]
	seed := t.Bytes("cfg.seed", 16)
	ntask := 2 + t.Intn("cfg.tasks", 3)
	var w0 *world
	if pn := core.Guard(func() { w0 = newWorld(gr, seed) }); pn != nil || w0 == nil || w0.P == nil || w0.Q == nil {
		// this group instance does not support the operations the shared world is built from
		info.Probe("world-not-constructible:" + gr.name)
		info.Config["group"] = gr.name
		return nil
	}
	var avail []int
	for i, c := range calls {
		usable := false
		if core.Guard(func() { usable = c.ok(w0) }) == nil && usable {
			avail = append(avail, i)
		}
	}
	// cold mode (checks/C20.sh, one run per process): nothing of the library's package-level state has
	// been used by this process except what building the shared world needed. The sequential reference
	// execution is postponed until AFTER the concurrent one (it would warm everything up), and every
	// task starts with a constructor call.
	cold := os.Getenv("VERIF_RACE_COLD") != ""
	var coldFirst []int
	for _, i := range avail {
		switch calls[i].name {
		case "local.Base()", "local.Mul(s,nil)", "local.Null()+Scalar.One()", "Pair(A1,A2)", "suite.Hash+XOF", "group.String+lens":
			coldFirst = append(coldFirst, i)
		}
	}
	plan := make([][]int, ntask)
	var names []string
	for i := range plan {
		n := 1 + t.Intn("cfg.calls", 6)
		if cold && len(coldFirst) > 0 {
			c := coldFirst[t.Intn("cfg.cold", len(coldFirst))]
			plan[i] = append(plan[i], c)
			names = append(names, fmt.Sprintf("t%d:%s", i, calls[c].name))
		}
		for k := 0; k < n; k++ {
			// bias towards the calls that may normalise/cache inside a shared value
			c := avail[t.Intn("cfg.call", len(avail))]
			if t.Bool("cfg.call", 400) {
				c = avail[t.Intn("cfg.call", minInt(len(avail), 13))]
			}
			plan[i] = append(plan[i], c)
			names = append(names, fmt.Sprintf("t%d:%s", i, calls[c].name))
		}
	}
	info.Config["group"], info.Config["tasks"], info.Config["calls"] = gr.name, ntask, names

	before := snapshot(w0)
	// (0) reference: the same calls, task after task, on a fresh world, with the yield counter running
	order := make([]int, ntask)
	for i := range order {
		order[i] = i
	}
	ref := make([][][]byte, ntask)
	span := make([]int, ntask) // yield points each task passes when it runs alone
	total := 0
	reference := func() *core.Violation {
		simyield.Begin(ntask, order, nil)
		var pn any
		for i := 0; i < ntask && pn == nil; i++ {
			i := i
			s0 := simyield.Steps()
			pn = core.Guard(func() {
				for _, c := range plan[i] {
					ref[i] = append(ref[i], calls[c].f(w0))
				}
			})
			span[i] = simyield.Steps() - s0
			simyield.Leave(i)
		}
		total = simyield.Steps()
		_ = simyield.End()
		if pn != nil {
			return viol("totality", "sequential-panic/"+gr.name, "a read-only call panicked in the sequential reference execution: %v | %s", pn, core.LastStack())
		}
		if a := snapshot(w0); !bytes.Equal(a, before) {
			return viol("unchanged", "shared-object-changed-sequentially/"+gr.name, "shared objects encode differently after read-only calls (sequential execution)")
		}
		return nil
	}
	if !cold {
		if v := reference(); v != nil {
			return v
		}
		newRaceReports() // nothing can race in a sequential execution; drain anyway
	} else {
		// no measurement yet: assume a few dozen yield points per task for the placement of preemptions
		for i := range span {
			span[i] = 30
		}
		total = 30 * ntask
		info.Faults["cold-process"]++
	}

	// (1) the schedule
	prio := t.Perm("sched.prio", ntask)
	d := t.Intn("sched.d", 4)
	var pre []int
	for k := 0; k < d && total > 1; k++ {
		if k == 0 && span[prio[0]] > 0 && t.Bool("sched.bias", 700) {
			// a preemption that lands inside the first-running task is what creates an interleaving at all
			pre = append(pre, 1+t.Intn("sched.step", span[prio[0]]))
			continue
		}
		pre = append(pre, 1+t.Intn("sched.step", total))
	}
	sort.Ints(pre)
	pre = dedupInts(pre)
	info.Config["yield_points"], info.Config["preempt_at"], info.Config["priority"] = total, pre, prio

	w1 := newWorld(gr, seed)
	got := make([][][]byte, ntask)
	panics := make([]any, ntask)
	simyield.Begin(ntask, prio, pre)
	var wg sync.WaitGroup
	for i := 0; i < ntask; i++ {
		wg.Add(1)
		go func(i int) {
			defer wg.Done()
			simyield.Enter(i)
			panics[i] = core.Guard(func() {
				for _, c := range plan[i] {
					got[i] = append(got[i], calls[c].f(w1))
				}
			})
			simyield.Leave(i)
		}(i)
	}
	wg.Wait()
	trace := simyield.End()
	info.Events += total
	switches := 0
	for _, h := range trace {
		if h[1] != h[2] {
			switches++
		}
	}
	if switches > ntask-1 { // more hand-offs than the unavoidable end-of-task ones
		info.NonTrivial = true
		info.Faults["preemption"] += switches - (ntask - 1)
	}
	info.SigAdd("%s:%v:%v", gr.name, names, trace)
	info.Logf("%s tasks=%d calls=%v yield-points=%d preempt=%v prio=%v handoffs=%v", gr.name, ntask, names, total, pre, prio, trace)

	reports, raw := newRaceReports()
	for i, p := range panics {
		if p != nil {
			return viol("totality", "concurrent-panic/"+gr.name, "task %d panicked under the schedule (the sequential execution did not): %v", i, p)
		}
	}
	if len(reports) > 0 {
		kyberSide := false
		for _, r := range reports {
			if strings.Contains(r, "/") || strings.Contains(r, ".") && !strings.Contains(r, "(outside kyber) <-> (outside kyber)") {
				kyberSide = true
			}
		}
		// the class is the group instance: which of a run's races are *new* to this process depends on
		// what earlier runs of the worker already made the detector report (it reports a race once per process)
		v := viol("data-race", "data-race/"+gr.name, "the race detector reports %d data race(s) between read-only calls on shared objects of %s: %s\n%s", len(reports), gr.name, strings.Join(reports, "; "), firstLines(raw, 40))
		v.NoShrink = true
		if !kyberSide {
			panic("harness: race report without a kyber frame:\n" + raw)
		}
		return v
	}
	if cold {
		// the postponed reference execution (its results are what the concurrent ones are compared with)
		if v := reference(); v != nil {
			return v
		}
		newRaceReports()
	}
	// (2) sequential equivalence
	for i := range plan {
		for k, c := range plan[i] {
			if calls[c].nodet {
				continue
			}
			if k >= len(got[i]) || !bytes.Equal(got[i][k], ref[i][k]) {
				var g []byte
				if k < len(got[i]) {
					g = got[i][k]
				}
				return viol("sequential-equivalence", "result-differs-from-sequential/"+gr.name+"/"+calls[c].name, "task %d call %s returned %x under the schedule, %x when executed sequentially (hand-offs %v)", i, calls[c].name, head(g), head(ref[i][k]), trace)
			}
		}
	}
	// (3) shared objects unchanged
	if a := snapshot(w1); !bytes.Equal(a, before) {
		return viol("unchanged", "shared-object-changed/"+gr.name, "shared objects encode differently after the concurrent read-only calls")
	}
	return nil
}

func snapshot(w *world) []byte {
	var b []byte
	b = append(b, enc(w.P.Clone())...)
	b = append(b, enc(w.Q.Clone())...)
	b = append(b, encS(w.s.Clone())...)
	if w.A1 != nil {
		b = append(b, enc(w.A1.Clone())...)
		b = append(b, enc(w.A2.Clone())...)
	}
	if w.mask != nil {
		b = append(b, w.mask.Mask()...)
	}
	return b
}

func head(b []byte) []byte {
	if len(b) > 40 {
		return b[:40]
	}
	return b
}

func firstLines(s string, n int) string {
	l := strings.Split(s, "\n")
	if len(l) > n {
		l = l[:n]
	}
	return strings.Join(l, "\n")
}

func dedupInts(a []int) []int {
	var out []int
	for i, v := range a {
		if i == 0 || v != a[i-1] {
			out = append(out, v)
		}
	}
	return out
}

func minInt(a, b int) int {
	if a < b {
		return a
	}
	return b
}
