// Command yieldify rewrites a scratch copy of kyber for the C20 engine: it
// inserts simyield.Point() at the entry of every function and, in the files
// that hold the point/scalar/suite/mask/poly level code, before every
// statement. It never touches /repo.
//
//	yieldify <root of the scratch copy>
package main

import (
	"bytes"
	"fmt"
	"go/ast"
	"go/format"
	"go/parser"
	"go/token"
	"os"
	"path/filepath"
	"strings"
)

const yieldPkg = "go.dedis.ch/kyber/v4/simyield"

// packages that are never touched: the runtime itself, the protobuf codec
// (holds the only mutex of the repository; its critical section must not be
// interrupted by a yield), benchmarks and examples.
var skipDirs = []string{"simyield", "internal/protobuf", "benchmark", "examples", "internal/test", "internal/wycheproof", "util/test"}

// field arithmetic and other inner-loop files get no yields at all: a single
// MarshalBinary would otherwise cost 10^5 yields.
var noYieldFiles = []string{"fe.go", "ge.go", "ge_mult_vartime.go", "const.go", "gfp.go", "gfp2.go", "gfp6.go", "gfp12.go", "gfp_generic.go", "gfp_decl.go",
	"lattice.go", "optate.go", "mul_amd64.go", "mul_arm64.go", "nat.go", "nat_noasm.go", "nat_asm.go", "constants.go", "hash.go", "param.go"}

// files that get a yield before every statement
func dense(rel string) bool {
	base := filepath.Base(rel)
	switch base {
	case "point.go", "point_vartime.go", "curve.go", "proj.go", "ext.go", "basic.go", "suite.go", "qrsuite.go", "mask.go", "poly.go", "g1.go", "g2.go", "gt.go", "scalar.go",
		"int.go", "constant_time_int.go", "var_int.go", "const_int.go", "residue.go", "twist.go", "p256.go", "marshal.go", "encoding.go", "rand.go", "blake.go", "keccak.go",
		"bls.go", "tbls.go", "bdn.go", "schnorr.go", "eddsa.go", "cosi.go", "proof.go", "pairing.go", "adapter.go", "group.go":
		return true
	}
	return false
}

func main() {
	root := os.Args[1]
	nFiles, nPoints := 0, 0
	err := filepath.Walk(root, func(path string, fi os.FileInfo, err error) error {
		if err != nil {
			return err
		}
		rel, _ := filepath.Rel(root, path)
		if fi.IsDir() {
			for _, s := range skipDirs {
				if rel == s || strings.HasPrefix(rel, s+"/") {
					return filepath.SkipDir
				}
			}
			if strings.HasPrefix(fi.Name(), ".") && rel != "." {
				return filepath.SkipDir
			}
			return nil
		}
		if !strings.HasSuffix(path, ".go") || strings.HasSuffix(path, "_test.go") {
			return nil
		}
		for _, n := range noYieldFiles {
			if fi.Name() == n {
				return nil
			}
		}
		n, err := rewrite(path, dense(rel))
		if err != nil {
			return fmt.Errorf("%s: %w", rel, err)
		}
		if n > 0 {
			nFiles++
			nPoints += n
		}
		return nil
	})
	if err != nil {
		fmt.Fprintln(os.Stderr, "yieldify:", err)
		os.Exit(2)
	}
	fmt.Printf("yieldify: %d yield points in %d files\n", nPoints, nFiles)
}

func yieldStmt() ast.Stmt {
	return &ast.ExprStmt{X: &ast.CallExpr{Fun: &ast.SelectorExpr{X: ast.NewIdent("simyield"), Sel: ast.NewIdent("Point")}}}
}

func rewrite(path string, denseFile bool) (int, error) {
	fset := token.NewFileSet()
	src, err := os.ReadFile(path)
	if err != nil {
		return 0, err
	}
	f, err := parser.ParseFile(fset, path, src, parser.ParseComments)
	if err != nil {
		return 0, err
	}
	count := 0
	var instr func(list []ast.Stmt) []ast.Stmt
	instr = func(list []ast.Stmt) []ast.Stmt {
		out := make([]ast.Stmt, 0, 2*len(list))
		for _, s := range list {
			// recurse first
			switch st := s.(type) {
			case *ast.BlockStmt:
				st.List = instr(st.List)
			case *ast.IfStmt:
				walkIf(st, instr)
			case *ast.ForStmt:
				st.Body.List = instr(st.Body.List)
			case *ast.RangeStmt:
				st.Body.List = instr(st.Body.List)
			case *ast.SwitchStmt:
				for _, c := range st.Body.List {
					cc := c.(*ast.CaseClause)
					cc.Body = instr(cc.Body)
				}
			case *ast.TypeSwitchStmt:
				for _, c := range st.Body.List {
					cc := c.(*ast.CaseClause)
					cc.Body = instr(cc.Body)
				}
			case *ast.SelectStmt:
				for _, c := range st.Body.List {
					cc := c.(*ast.CommClause)
					cc.Body = instr(cc.Body)
				}
			case *ast.LabeledStmt:
				// leave labelled statements alone (goto/continue targets)
				out = append(out, s)
				continue
			}
			out = append(out, yieldStmt(), s)
			count++
		}
		return out
	}
	for _, d := range f.Decls {
		fd, ok := d.(*ast.FuncDecl)
		if !ok || fd.Body == nil {
			continue
		}
		if fd.Doc != nil {
			skip := false
			for _, c := range fd.Doc.List {
				if strings.HasPrefix(c.Text, "//go:nosplit") || strings.HasPrefix(c.Text, "//go:noescape") {
					skip = true
				}
			}
			if skip {
				continue
			}
		}
		if denseFile {
			fd.Body.List = instr(fd.Body.List)
		} else {
			fd.Body.List = append([]ast.Stmt{yieldStmt()}, fd.Body.List...)
			count++
		}
	}
	if count == 0 {
		return 0, nil
	}
	// add the import
	imp := &ast.ImportSpec{Path: &ast.BasicLit{Kind: token.STRING, Value: fmt.Sprintf("%q", yieldPkg)}}
	gd := &ast.GenDecl{Tok: token.IMPORT, Specs: []ast.Spec{imp}}
	f.Decls = append([]ast.Decl{gd}, f.Decls...)
	f.Imports = append(f.Imports, imp)
	var buf bytes.Buffer
	// comments are dropped on purpose for rewritten bodies: positions of inserted nodes are unknown
	f.Comments = filterBuildComments(f)
	if err := format.Node(&buf, fset, f); err != nil {
		return 0, err
	}
	return count, os.WriteFile(path, buf.Bytes(), 0o644)
}

func walkIf(st *ast.IfStmt, instr func([]ast.Stmt) []ast.Stmt) {
	st.Body.List = instr(st.Body.List)
	switch e := st.Else.(type) {
	case *ast.BlockStmt:
		e.List = instr(e.List)
	case *ast.IfStmt:
		walkIf(e, instr)
	}
}

// keep only the comments that precede the package clause (build constraints, package doc)
func filterBuildComments(f *ast.File) []*ast.CommentGroup {
	var keep []*ast.CommentGroup
	for _, cg := range f.Comments {
		if cg.End() < f.Package {
			keep = append(keep, cg)
		}
	}
	return keep
}
