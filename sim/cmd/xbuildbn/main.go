// Command xbuildbn links the signing-session engine, whose BN256/BN254 field
// arithmetic is assembly in the default build and pure Go under the tag
// "generic", and the replicated-program engine (family bn256: pools seeded with
// edge-limb field elements). checks/C18.sh builds both and diffs the transcripts.
package main

import (
	"verif/sim/core"
	_ "verif/sim/engines/heterosim"
	_ "verif/sim/engines/signsim"
)

func main() { core.Main(func(string) (map[string]any, []string) { return nil, nil }) }
