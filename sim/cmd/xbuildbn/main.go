// Command xbuildbn links the signing-session engine, whose BN256/BN254 field
// arithmetic is assembly in the default build and pure Go under the tag
// "generic". checks/C18.sh builds both and diffs the transcripts.
package main

import (
	"verif/sim/core"
	_ "verif/sim/engines/signsim"
)

func main() { core.Main(func(string) (map[string]any, []string) { return nil, nil }) }
