package main

func extras(prop string) (map[string]any, []string) {
	switch prop {
	case "C12":
		return nil, []string{
			"sampling, not enumeration: a clean batch is evidence over the seeded runs within n<=7, <=2000 events",
			"the set-up DKGs run honestly (their own faults are C11's business)",
			"the independent oracle trusts math/big, crypto/sha512 and crypto/ed25519",
			"a PartialSig with a nil Partial or nil scalar is not generated (no wire decoding can produce a typed nil here without the application's own decoder)",
		}
	case "C11":
		return nil, []string{
			"network model: phase-synchronous reliable broadcast (every packet sent in phase k reaches every live honest node before that node's tick to k+1); per-recipient order, multiplicity and position relative to other nodes' ticks are free",
			"faulty parties (crash-stop or Byzantine) stay within n-t (resharing: old-t dealers, new-t holders)",
			"Byzantine behaviour is a finite menu (DESIGN §3 C11); a Byzantine party still runs its real object and its driver rewrites and re-signs what the object emits",
			"membership is asserted only for the two cases the property names (honest live dealers in; dealers whose invalid/missing deal to an honest party stays unjustified out); everything else is checked through agreement",
			"trusted: math/big Lagrange interpolation, the harness's Horner evaluation, testing/synctest quiescence",
		}
	case "C09":
		return nil, []string{
			"the reference for threshold recovery is bls.Sign(group secret, msg) of the same suite, which is the property's own definition of the unique signature",
			"semantically different: a corrupted partial that still decodes to the same index and point is treated as the same partial",
			"CoSi leader logic is a stub (kyber ships none)",
			"sampling; finite Byzantine menu",
		}
	case "C13":
		return nil, []string{
			"the model's notion of a correct share is 'untouched original produced by the real code from the honest dealing'; every alteration in the menu is semantic (adds the base point, changes an index, substitutes another party's value)",
			"after a tampered dealing nothing further is asserted (the global challenge covers the whole dealing)",
			"sampling; finite Byzantine menus",
		}
	case "C14":
		return nil, []string{
			"faults are placed where they carry meaning in the 3-move protocol (the randomness commitment of the last message is never opened, so altering it is not a semantic change)",
			"a blocked clique is detected with a timer on the bubble's fake clock, which fires only when every task is durably blocked",
			"verifier goroutines that kyber leaves parked after an aborted session are counted (probe), not asserted",
			"sampling within <=4 Or-branches, <=4 And-terms, <=3 terms per Rep, <=5 clique participants",
		}
	case "C03":
		return nil, []string{
			"decisive scope: the stream clause (MarshalTo/UnmarshalFrom, hex helpers, suite.Read/Write under every legal chunking); the pure input clauses are re-checked on the values that flow",
			"a zero-length read with a nil error is generated at most three times per session (legal for io.Reader)",
		}
	case "C04":
		return nil, []string{
			"independent membership models are calibrated on honest points first; a model that rejects an honest point is dropped and reported as probe membership-model-uncalibrated",
			"curve constants (p, d, b, group orders) are the public parameters of the curves",
			"for vss Deal.Unmarshal a strict prefix may be a well-formed protobuf message: only totality is asserted there",
		}
	case "C19":
		return nil, []string{
			"the single-shot replay uses the implementation under test on a fresh instance (it decides chunk independence, clone and reset behaviour); the golang.org/x/crypto primitives are the independent reference before any reseed",
			"trusted: crypto/sha256, golang.org/x/crypto/{blake2b,blake2s,sha3}, math/big",
		}
	case "C18":
		return nil, []string{
			"decisive scope: interoperability of heterogeneous clusters and identical transcripts across build configurations; comparison with an arbitrary-precision reference model is not part of this technique",
			"scalars are injected with SetInt64 and products thereof and travel as canonical encodings (BLS12-381) or by value (Ed25519 implementations declare different scalar byte orders)",
			"cross-build: transcripts exclude kyber's own log lines, some of which are emitted while ranging over a Go map",
		}
	case "C10":
		return nil, []string{
			"sampling within n<=6, t in 2..n, <=3000 events per run; both VSS variants on Ed25519",
			"broadcast model: safety oracles hold for every delivered history (loss, duplication, reordering allowed); liveness/certification of an honest deal is asserted only in the fault-free class",
			"a response or timeout that reaches a verifier before its deal is buffered/deferred by the driver (Pedersen documents this duty; Rabin dereferences a nil aggregator in that order - recorded as an observation, C10 does not speak about it)",
			"the malicious dealer and Byzantine verifiers are finite menus (DESIGN §3 C10)",
			"trusted: math/big, the harness's own Horner evaluation of the commitment polynomial, deriveH re-derived from the verifiers' keys as the scheme prescribes",
		}
	}
	return nil, nil
}
