package main

func extras(prop string) (map[string]any, []string) {
	switch prop {
	case "C12":
		return nil, []string{
			"sampling, not enumeration: a clean batch is evidence over the seeded runs within n<=7, <=2000 events",
			"the set-up DKGs run honestly (their own faults are C11's business)",
			"the independent oracle trusts math/big, crypto/sha512 and crypto/ed25519",
			"a PartialSig with a nil Partial or nil scalar is not generated (no wire decoding can produce a typed nil here without the application's own decoder)",
		}
	}
	return nil, nil
}
