package main

func extras(prop string) (map[string]any, []string) {
	switch prop {
	case "C12":
		return nil, []string{
			"sampling, not enumeration: a clean batch is evidence over the seeded runs within n<=7, <=2000 events",
			"the set-up DKGs run honestly (their own faults are C11's business)",
			"the independent oracle trusts math/big, crypto/sha512 and crypto/ed25519",
			"a PartialSig with a nil Partial or nil scalar is not generated (no wire decoding can produce a typed nil here without the application's own decoder)",
		}
	case "C10":
		return nil, []string{
			"sampling within n<=6, t in 2..n, <=3000 events per run; both VSS variants on Ed25519",
			"broadcast model: safety oracles hold for every delivered history (loss, duplication, reordering allowed); liveness/certification of an honest deal is asserted only in the fault-free class",
			"a response or timeout that reaches a verifier before its deal is buffered/deferred by the driver (Pedersen documents this duty; Rabin dereferences a nil aggregator in that order - recorded as an observation, C10 does not speak about it)",
			"the malicious dealer and Byzantine verifiers are finite menus (DESIGN §3 C10)",
			"trusted: math/big, the harness's own Horner evaluation of the commitment polynomial, deriveH re-derived from the verifiers' keys as the scheme prescribes",
		}
	}
	return nil, nil
}
