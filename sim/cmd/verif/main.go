// Command verif is the single entry point of the simulation harness (see core.Main).
package main

import (
	"verif/sim/core"
	_ "verif/sim/engines"
)

func main() { core.Main(extras) }
