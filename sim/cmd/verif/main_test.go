package main

import (
	"os"
	"testing"

	"verif/sim/core"
)

// The harness is built as a test binary (go test -c) only so that engines
// can open testing/synctest bubbles, which need a *testing.T. TestMain keeps
// the command line for the dispatcher and hands the test framework a fixed
// one; TestDispatch runs the real main and exits with its code.
var savedArgs []string

func TestMain(m *testing.M) {
	savedArgs = os.Args
	os.Args = []string{os.Args[0], "-test.run=^TestDispatch$", "-test.timeout=0"}
	os.Exit(m.Run())
}

func TestDispatch(t *testing.T) {
	core.T = t
	os.Args = savedArgs
	main()
	os.Exit(0)
}
