package main

import (
	"os"
	"testing"

	"verif/sim/core"
)

var savedArgs []string

func TestMain(m *testing.M) {
	savedArgs = os.Args
	os.Args = []string{os.Args[0], "-test.run=^TestDispatch$", "-test.timeout=0"}
	os.Exit(m.Run())
}

func TestDispatch(t *testing.T) {
	core.T = t
	os.Args = savedArgs
	main()
	os.Exit(0)
}
