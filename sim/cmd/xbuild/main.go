// Command xbuild links only the engines whose code exists under every build
// configuration of kyber (default, constantTime, constantTime+purego): the
// Ed25519/P-256 protocol engines. checks/C18.sh builds it under each tag set
// and diffs the transcripts of the same seeded runs.
package main

import (
	"verif/sim/core"
	_ "verif/sim/engines/dkgsim"
	_ "verif/sim/engines/dsssim"
	_ "verif/sim/engines/modsim"
	_ "verif/sim/engines/pvsssim"
	_ "verif/sim/engines/vsssim"
)

func main() { core.Main(func(string) (map[string]any, []string) { return nil, nil }) }
