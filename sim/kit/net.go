package kit

import (
	"container/heap"

	"verif/sim/core"
)

// Ev is one scheduled delivery or timer.
type Ev struct {
	At      int64 // simulated ns
	Seq     uint64
	From    int
	To      int
	Kind    string
	Payload any
	SentSeq uint64 // order of sending, for reorder detection
	Copy    int    // 0 = original, >0 = duplicate number
}

type evHeap []*Ev

func (h evHeap) Len() int { return len(h) }
func (h evHeap) Less(i, j int) bool {
	if h[i].At != h[j].At {
		return h[i].At < h[j].At
	}
	return h[i].Seq < h[j].Seq
}
func (h evHeap) Swap(i, j int) { h[i], h[j] = h[j], h[i] }
func (h *evHeap) Push(x any)   { *h = append(*h, x.(*Ev)) }
func (h *evHeap) Pop() any {
	o := *h
	x := o[len(o)-1]
	*h = o[:len(o)-1]
	return x
}

// NetCfg is the per-run (swarm) network configuration.
type NetCfg struct {
	DropPm   int   // per-delivery loss, permille
	DupPm    int   // per-delivery duplication, permille
	JitterNs int64 // max extra delay; 0 = FIFO
	BaseNs   int64
}

// Net is a discrete-event network: a heap ordered by (time, seq); the clock
// jumps to the next event. All choices come from the tape.
type Net struct {
	Now      int64
	seq      uint64
	sent     uint64
	q        evHeap
	T        *core.Tape
	Info     *core.RunInfo
	Cfg      NetCfg
	lastSent map[int]uint64 // per recipient: highest SentSeq delivered so far
}

func NewNet(t *core.Tape, info *core.RunInfo, cfg NetCfg) *Net {
	if cfg.BaseNs == 0 {
		cfg.BaseNs = 1_000_000
	}
	return &Net{T: t, Info: info, Cfg: cfg, lastSent: map[int]uint64{}}
}

// DrawNetCfg draws a swarm network configuration: each fault kind is enabled
// for this run with its own coin; honest==true disables loss.
func DrawNetCfg(t *core.Tape, allowDrop bool) NetCfg {
	c := NetCfg{}
	if t.Bool("net.cfg", 600) {
		c.JitterNs = int64(1+t.Intn("net.cfg", 20)) * 1_000_000
	}
	if t.Bool("net.cfg", 400) {
		c.DupPm = 50 + t.Intn("net.cfg", 300)
	}
	if allowDrop && t.Bool("net.cfg", 400) {
		c.DropPm = 30 + t.Intn("net.cfg", 250)
	}
	return c
}

// After schedules a local timer event for node `to`.
func (n *Net) After(d int64, to int, kind string, payload any) {
	n.seq++
	heap.Push(&n.q, &Ev{At: n.Now + d, Seq: n.seq, From: to, To: to, Kind: kind, Payload: payload})
}

// Send schedules delivery of one message to one recipient, applying loss,
// duplication and delay. clone must return an independent copy of payload
// (each delivered copy is its own object).
func (n *Net) Send(from, to int, kind string, payload any, clone func(any) any) {
	n.sent++
	ss := n.sent
	if n.Cfg.DropPm > 0 && n.T.Bool("net.drop", n.Cfg.DropPm) {
		n.Info.Fault("drop")
		n.Info.Logf("net: drop %s %d->%d", kind, from, to)
		return
	}
	copies := 1
	if n.Cfg.DupPm > 0 && n.T.Bool("net.dup", n.Cfg.DupPm) {
		copies = 2 + n.T.Intn("net.dup", 2)
		n.Info.Fault("duplicate")
	}
	for c := 0; c < copies; c++ {
		d := n.Cfg.BaseNs
		if n.Cfg.JitterNs > 0 {
			d += int64(n.T.Draw("net.delay", uint64(n.Cfg.JitterNs/100_000)+1)) * 100_000
		}
		if c > 0 {
			d += n.Cfg.BaseNs * int64(c)
		}
		n.seq++
		p := payload
		if clone != nil {
			p = clone(payload)
		}
		heap.Push(&n.q, &Ev{At: n.Now + d, Seq: n.seq, From: from, To: to, Kind: kind, Payload: p, SentSeq: ss, Copy: c})
	}
}

// Next pops the next event and advances the clock.
func (n *Net) Next() (*Ev, bool) {
	if n.q.Len() == 0 {
		return nil, false
	}
	e := heap.Pop(&n.q).(*Ev)
	n.Now = e.At
	n.Info.Events++
	n.Info.SimNs = n.Now
	if e.SentSeq != 0 {
		if e.SentSeq < n.lastSent[e.To] {
			n.Info.Fault("reorder")
		} else {
			n.lastSent[e.To] = e.SentSeq
		}
	}
	return e, true
}

func (n *Net) Pending() int { return n.q.Len() }
