// Package kit holds helpers shared by the engines: deterministic key
// material from the tape, byte-level deep copies across node boundaries,
// honest set-up runs of the real DKGs, and arithmetic that is independent of
// kyber (math/big over Ed25519's group order) for the oracles.
package kit

import (
	"errors"
	"fmt"
	"math/big"

	"go.dedis.ch/kyber/v4"
	"go.dedis.ch/kyber/v4/group/edwards25519"
	pdkg "go.dedis.ch/kyber/v4/share/dkg/pedersen"
	rdkg "go.dedis.ch/kyber/v4/share/dkg/rabin"
	"go.dedis.ch/kyber/v4/sign/schnorr"

	"verif/sim/core"
)

// Ed returns a fresh Ed25519 suite (RandomStream reads crypto/rand.Reader,
// which the harness has replaced by a seeded stream).
func Ed() *edwards25519.SuiteEd25519 { return edwards25519.NewBlakeSHA256Ed25519() }

// L is the order of the Ed25519 prime-order subgroup.
var L, _ = new(big.Int).SetString("7237005577332262213973186563042994240857116359379907606001950938285454250989", 10)

// ScalarFromBytes reduces 64 tape bytes into a scalar of the group.
func ScalarFromTape(g kyber.Group, t *core.Tape, label string) kyber.Scalar {
	return g.Scalar().SetBytes(t.Bytes(label, 64))
}

// KeyPairs draws n key pairs. Every key mixes a per-tape counter into the
// drawn value, so that keys stay pairwise distinct even when a minimised
// tape has been zeroed (two parties sharing a key would be a harness artefact).
func KeyPairs(g kyber.Group, t *core.Tape, label string, n int) ([]kyber.Scalar, []kyber.Point) {
	privs := make([]kyber.Scalar, n)
	pubs := make([]kyber.Point, n)
	for i := 0; i < n; i++ {
		d := t.Draw(label, 1<<62)
		privs[i] = g.Scalar().SetBytes(core.ExpandBytes(d+core.SplitMix(t.NextCounter()), 64))
		if privs[i].Equal(g.Scalar().Zero()) {
			privs[i] = g.Scalar().One()
		}
		pubs[i] = g.Point().Mul(privs[i], nil)
	}
	return privs, pubs
}

// CopyScalar / CopyPoint move a value across a node boundary as bytes.
func CopyScalar(g kyber.Group, s kyber.Scalar) kyber.Scalar {
	if s == nil {
		return nil
	}
	b, err := s.MarshalBinary()
	if err != nil {
		panic("harness: scalar marshal: " + err.Error())
	}
	r := g.Scalar()
	if err := r.UnmarshalBinary(b); err != nil {
		panic("harness: scalar unmarshal: " + err.Error())
	}
	return r
}

func CopyPoint(g kyber.Group, p kyber.Point) kyber.Point {
	if p == nil {
		return nil
	}
	b, err := p.MarshalBinary()
	if err != nil {
		panic("harness: point marshal: " + err.Error())
	}
	r := g.Point()
	if err := r.UnmarshalBinary(b); err != nil {
		panic("harness: point unmarshal: " + err.Error())
	}
	return r
}

func CopyPoints(g kyber.Group, ps []kyber.Point) []kyber.Point {
	if ps == nil {
		return nil
	}
	out := make([]kyber.Point, len(ps))
	for i, p := range ps {
		out[i] = CopyPoint(g, p)
	}
	return out
}

func CopyBytes(b []byte) []byte {
	if b == nil {
		return nil
	}
	return append([]byte{}, b...)
}

// ---- independent arithmetic over Z_L (Ed25519 scalars are little-endian) ----

func ScalarBig(s kyber.Scalar) *big.Int {
	b, err := s.MarshalBinary()
	if err != nil {
		panic(err)
	}
	be := make([]byte, len(b))
	for i := range b {
		be[len(b)-1-i] = b[i]
	}
	return new(big.Int).SetBytes(be)
}

func BigScalar(g kyber.Group, v *big.Int) kyber.Scalar {
	x := new(big.Int).Mod(v, L)
	be := x.Bytes()
	le := make([]byte, 32)
	for i := range be {
		le[i] = be[len(be)-1-i]
	}
	s := g.Scalar()
	if err := s.UnmarshalBinary(le); err != nil {
		panic(err)
	}
	return s
}

// LagrangeAt0 interpolates the polynomial through (x_i, y_i) over Z_L at 0.
// Share index i corresponds to x = i+1 (the convention of share/poly.go,
// stated in its documentation, not read from its code paths).
func LagrangeAt0(idx []uint32, ys []*big.Int) *big.Int {
	acc := new(big.Int)
	for i := range idx {
		xi := big.NewInt(int64(idx[i]) + 1)
		num := new(big.Int).Set(ys[i])
		den := big.NewInt(1)
		for j := range idx {
			if i == j {
				continue
			}
			xj := big.NewInt(int64(idx[j]) + 1)
			num.Mul(num, xj)
			num.Mod(num, L)
			d := new(big.Int).Sub(xj, xi)
			d.Mod(d, L)
			den.Mul(den, d)
			den.Mod(den, L)
		}
		inv := new(big.Int).ModInverse(den, L)
		if inv == nil {
			panic("harness: duplicate index in LagrangeAt0")
		}
		num.Mul(num, inv)
		acc.Add(acc, num)
		acc.Mod(acc, L)
	}
	return acc
}

// EvalCommits evaluates a commitment polynomial at share index i (x=i+1)
// using only Add and Mul-by-small-scalar via Horner (independent of
// share.PubPoly.Eval).
func EvalCommits(g kyber.Group, commits []kyber.Point, i uint32) kyber.Point {
	x := g.Scalar().SetInt64(int64(i) + 1)
	acc := g.Point().Null()
	for k := len(commits) - 1; k >= 0; k-- {
		acc = g.Point().Mul(x, acc)
		acc = g.Point().Add(acc, commits[k])
	}
	return acc
}

// ---- honest set-up DKGs (real code, no faults) ----

// PedersenHonest runs a fault-free Pedersen DKG in direct mode.
func PedersenHonest(privs []kyber.Scalar, pubs []kyber.Point, t int, nonce []byte) ([]*pdkg.DistKeyShare, error) {
	n := len(privs)
	nodes := make([]pdkg.Node, n)
	for i := range pubs {
		nodes[i] = pdkg.Node{Index: uint32(i), Public: pubs[i]}
	}
	gens := make([]*pdkg.DistKeyGenerator, n)
	for i := 0; i < n; i++ {
		c := &pdkg.Config{Suite: Ed(), Longterm: privs[i], NewNodes: append([]pdkg.Node{}, nodes...), Threshold: uint32(t), Nonce: nonce, Auth: schnorr.NewScheme(Ed())}
		g, err := pdkg.NewDistKeyHandler(c)
		if err != nil {
			return nil, err
		}
		gens[i] = g
	}
	var deals []*pdkg.DealBundle
	for _, g := range gens {
		d, err := g.Deals()
		if err != nil {
			return nil, err
		}
		deals = append(deals, d)
	}
	var resps []*pdkg.ResponseBundle
	for _, g := range gens {
		r, err := g.ProcessDeals(deals)
		if err != nil {
			return nil, err
		}
		if r != nil {
			resps = append(resps, r)
		}
	}
	if len(resps) != 0 {
		return nil, errors.New("honest pedersen dkg produced complaints")
	}
	out := make([]*pdkg.DistKeyShare, n)
	for i, g := range gens {
		res, _, err := g.ProcessResponses(nil)
		if err != nil {
			return nil, err
		}
		if res == nil {
			return nil, errors.New("honest pedersen dkg: no result after responses")
		}
		out[i] = res.Key
	}
	return out, nil
}

// RabinHonest runs a fault-free Rabin DKG.
func RabinHonest(privs []kyber.Scalar, pubs []kyber.Point, t int) ([]*rdkg.DistKeyShare, error) {
	n := len(privs)
	gens := make([]*rdkg.DistKeyGenerator, n)
	for i := 0; i < n; i++ {
		g, err := rdkg.NewDistKeyGenerator(Ed(), privs[i], pubs, uint32(t))
		if err != nil {
			return nil, err
		}
		gens[i] = g
	}
	var resps []*rdkg.Response
	for i := 0; i < n; i++ {
		deals, err := gens[i].Deals()
		if err != nil {
			return nil, err
		}
		for j := 0; j < n; j++ {
			d, ok := deals[j]
			if !ok {
				continue
			}
			r, err := gens[j].ProcessDeal(d)
			if err != nil {
				return nil, err
			}
			resps = append(resps, r)
		}
	}
	for _, r := range resps {
		for i, g := range gens {
			if r.Response.Index == uint32(i) {
				continue
			}
			if _, err := g.ProcessResponse(r); err != nil {
				return nil, fmt.Errorf("rabin honest: response: %w", err)
			}
		}
	}
	var scs []*rdkg.SecretCommits
	for _, g := range gens {
		sc, err := g.SecretCommits()
		if err != nil {
			return nil, err
		}
		scs = append(scs, sc)
	}
	for _, sc := range scs {
		for i, g := range gens {
			if sc.Index == uint32(i) {
				continue
			}
			cc, err := g.ProcessSecretCommits(sc)
			if err != nil || cc != nil {
				return nil, fmt.Errorf("rabin honest: secret commits: %v %v", err, cc)
			}
		}
	}
	out := make([]*rdkg.DistKeyShare, n)
	for i, g := range gens {
		if !g.Finished() {
			return nil, errors.New("rabin honest: not finished")
		}
		d, err := g.DistKeyShare()
		if err != nil {
			return nil, err
		}
		out[i] = d
	}
	return out, nil
}

// DrawMsg draws a message: mostly short, sometimes of a length around the block sizes of the hashes in
// use (63, 64, 65, 127, 128, 129, 136, 255, 256, 300) - a lesson of seed C14f. The extra draw comes from
// its own label, so that older tapes keep their meaning for the short case.
func DrawMsg(t *core.Tape, label string, maxShort int) []byte {
	n := 1 + t.Intn(label, maxShort)
	if t.Bool(label+".long", 150) {
		n = []int{63, 64, 65, 127, 128, 129, 136, 255, 256, 300}[t.Intn(label+".long", 10)]
	}
	return t.Bytes(label, n)
}
