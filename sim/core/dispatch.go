// Command verif is the single entry point of the simulation harness:
//
//	verif check  -prop C12 -tier quick|thorough   (parent: fans out workers, aggregates, writes evidence)
//	verif worker …                                 (one OS process = one slice of runs)
//	verif replay <file>                            (re-executes one replay file)
package core

import (
	"encoding/json"
	"flag"
	"fmt"
	"os"
	"strconv"
	"time"
)

func envInt(name string, def int) int {
	if s := os.Getenv(name); s != "" {
		if v, err := strconv.Atoi(s); err == nil {
			return v
		}
	}
	return def
}

// Main is the dispatcher shared by the harness binaries.
func Main(extras func(prop string) (map[string]any, []string)) {
	if len(os.Args) < 2 {
		fmt.Fprintln(os.Stderr, "usage: verif check|worker|replay …")
		os.Exit(2)
	}
	switch os.Args[1] {
	case "check":
		fs := flag.NewFlagSet("check", flag.ExitOnError)
		prop := fs.String("prop", "", "property id")
		tier := fs.String("tier", "quick", "quick|thorough")
		_ = fs.Parse(os.Args[2:])
		if t := os.Getenv("VERIF_TIER"); t == "quick" || t == "thorough" {
			// explicit command-line tier wins; env only fills the default
			if !isFlagSet(fs, "tier") {
				*tier = t
			}
		}
		seed := uint64(1)
		if s := os.Getenv("VERIF_SEED"); s != "" {
			if v, err := strconv.ParseInt(s, 10, 64); err == nil {
				seed = uint64(v)
			}
		}
		workers, budget := 16, 120
		if *tier == "thorough" {
			workers, budget = 16, 900
		}
		workers = envInt("VERIF_WORKERS", workers)
		budget = envInt("VERIF_BUDGET_S", budget)
		self, _ := os.Executable()
		scale := 0.0
		if s := os.Getenv("VERIF_RUNS_SCALE"); s != "" {
			scale, _ = strconv.ParseFloat(s, 64)
		}
		extra, assume := extras(*prop)
		code := Check(CheckOptions{Prop: *prop, Tier: *tier, Seed: seed, Workers: workers,
			Budget: time.Duration(budget) * time.Second, Self: self, ExtraCov: extra, Assume: assume, RunsScale: scale})
		os.Exit(code)
	case "worker":
		fs := flag.NewFlagSet("worker", flag.ExitOnError)
		prop := fs.String("prop", "", "")
		engine := fs.String("engine", "", "")
		tier := fs.String("tier", "quick", "")
		seed := fs.Uint64("seed", 1, "")
		from := fs.Int("from", 0, "")
		step := fs.Int("step", 1, "")
		total := fs.Int("total", 1, "")
		dl := fs.Int64("deadline", 0, "unix nanos")
		_ = fs.Parse(os.Args[2:])
		deadline := time.Now().Add(time.Hour)
		if *dl != 0 {
			deadline = time.Unix(0, *dl)
		}
		res := Worker(*prop, *engine, *tier, *seed, *from, *step, *total, deadline)
		b, _ := json.Marshal(res)
		if f := os.Getenv("VERIF_WORKER_OUT"); f != "" {
			if err := os.WriteFile(f, b, 0o644); err != nil {
				fmt.Fprintln(os.Stderr, "cannot write worker result:", err)
				os.Exit(2)
			}
		} else {
			os.Stdout.Write(b)
		}
		if res.Fatal != "" {
			os.Exit(2)
		}
	case "trace":
		// verif trace -prop P -engine E -seed S -from a -to b : prints digests (and full logs with -v) for a range of runs
		fs := flag.NewFlagSet("trace", flag.ExitOnError)
		prop := fs.String("prop", "", "")
		engine := fs.String("engine", "", "")
		tier := fs.String("tier", "quick", "")
		seed := fs.Uint64("seed", 1, "")
		from := fs.Int("from", 0, "")
		to := fs.Int("to", 1, "")
		verbose := fs.Bool("v", false, "")
		_ = fs.Parse(os.Args[2:])
		TraceRuns(*prop, *engine, *tier, *seed, *from, *to, *verbose, os.Stdout)
	case "replay":
		if len(os.Args) < 3 {
			fmt.Fprintln(os.Stderr, "usage: verif replay <file>")
			os.Exit(2)
		}
		rf, v, same, err := Replay(os.Args[2])
		if err != nil {
			fmt.Fprintf(os.Stderr, "replay error: %v\n", err)
			os.Exit(2)
		}
		if v == nil {
			fmt.Printf("NOT-REPRODUCED property=%s class=%s (the run completed without a violation)\n", rf.Property, rf.Class)
			os.Exit(0)
		}
		if same {
			fmt.Printf("REPRODUCED property=%s class=%s digest=%s\n  detail=%s\n", v.Property, v.Class, rf.LogDigest, v.Detail)
			fmt.Printf("VIOLATION property=%s replay=%s\n", v.Property, os.Args[2])
			os.Exit(1)
		}
		fmt.Printf("DIVERGED property=%s class=%s (file has class=%s); event log or class differs\n  detail=%s\n", v.Property, v.Class, rf.Class, v.Detail)
		fmt.Printf("VIOLATION property=%s replay=%s\n", v.Property, os.Args[2])
		os.Exit(1)
	default:
		fmt.Fprintln(os.Stderr, "unknown subcommand")
		os.Exit(2)
	}
}

func isFlagSet(fs *flag.FlagSet, name string) bool {
	set := false
	fs.Visit(func(f *flag.Flag) {
		if f.Name == name {
			set = true
		}
	})
	return set
}
