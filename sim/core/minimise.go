package core

import (
	"time"
)

func countDraws(t map[string][]uint64) int {
	n := 0
	for _, v := range t {
		n += len(v)
	}
	return n
}

func cloneTapes(t map[string][]uint64) map[string][]uint64 {
	c := map[string][]uint64{}
	for k, v := range t {
		c[k] = append([]uint64(nil), v...)
	}
	return c
}

// Minimise shrinks the tapes of a violating run while the same violation
// class recurs, then re-executes once more with tracing to produce the replay
// file. Every candidate is a full re-execution of the engine on a replay tape.
func Minimise(e Engine, prop, tier string, tapes map[string][]uint64, seed uint64, v *Violation, budget int, limit time.Duration) *ReplayFile {
	start := time.Now()
	execs := 0
	orig := countDraws(tapes)
	cur := cloneTapes(tapes)
	test := func(c map[string][]uint64) bool {
		if execs >= budget || time.Since(start) > limit {
			return false
		}
		execs++
		t := ReplayTape(seed, c)
		nv, _, hp := runOnce(e, t, prop, tier, false)
		if hp != nil || nv == nil {
			return false
		}
		if nv.Property == v.Property && nv.Class == v.Class {
			// keep only what the run actually consumed
			used := t.Used()
			for k := range c {
				if u, ok := used[k]; ok {
					c[k] = u
				} else {
					c[k] = nil
				}
			}
			return true
		}
		return false
	}
	try := func(label string, mod func(s []uint64) []uint64) bool {
		c := cloneTapes(cur)
		ns := mod(append([]uint64(nil), c[label]...))
		if ns == nil {
			return false
		}
		c[label] = ns
		if test(c) {
			cur = c
			return true
		}
		return false
	}
	labels := SortedKeys(cur)
	for pass := 0; pass < 3 && execs < budget; pass++ {
		progress := false
		for _, lb := range labels {
			// 1. drop the whole tape, then truncate the tail
			if len(cur[lb]) > 0 && try(lb, func(s []uint64) []uint64 { return []uint64{} }) {
				progress = true
				continue
			}
			for n := len(cur[lb]) / 2; n >= 1; n /= 2 {
				for len(cur[lb]) > n && try(lb, func(s []uint64) []uint64 { return s[:len(s)-n] }) {
					progress = true
				}
			}
			// 2. delete blocks
			for sz := len(cur[lb]) / 2; sz >= 1; sz /= 2 {
				for i := 0; i+sz <= len(cur[lb]); {
					if try(lb, func(s []uint64) []uint64 { return append(s[:i:i], s[i+sz:]...) }) {
						progress = true
					} else {
						i += sz
					}
				}
			}
			// 3. zero blocks, then single values
			for sz := len(cur[lb]) / 2; sz >= 1; sz /= 2 {
				for i := 0; i+sz <= len(cur[lb]); i += sz {
					allZero := true
					for _, x := range cur[lb][i : i+sz] {
						if x != 0 {
							allZero = false
						}
					}
					if allZero {
						continue
					}
					if try(lb, func(s []uint64) []uint64 {
						for j := i; j < i+sz; j++ {
							s[j] = 0
						}
						return s
					}) {
						progress = true
					}
				}
			}
			// 4. lower single values
			for i := 0; i < len(cur[lb]); i++ {
				for cur[lb][i] > 0 {
					x := cur[lb][i]
					if !try(lb, func(s []uint64) []uint64 {
						if i >= len(s) {
							return nil
						}
						s[i] = x / 2
						return s
					}) {
						if x > 1 && try(lb, func(s []uint64) []uint64 {
							if i >= len(s) {
								return nil
							}
							s[i] = x - 1
							return s
						}) {
							progress = true
							continue
						}
						break
					}
					progress = true
				}
			}
		}
		if !progress {
			break
		}
	}
	if v.NoShrink {
		// cannot be re-executed meaningfully in this process: keep the original tapes and verdict;
		// the parent replays the file in a fresh process
		rf := &ReplayFile{Property: prop, Engine: e.Name(), Tier: tier, RunSeed: seed, Tapes: cur, OrigDraws: orig, MinDraws: orig,
			Oracle: v.Oracle, Class: v.Class, Detail: v.Detail}
		t := ReplayTape(seed, cur)
		_, info, _ := runOnce(e, t, prop, tier, true)
		rf.Config, rf.Fired, rf.Trace = info.Config, info.FiredKinds(), info.Trace
		rf.LogDigest = info.LogDigest()
		return rf
	}
	// final traced execution
	t := ReplayTape(seed, cur)
	nv, info, _ := runOnce(e, t, prop, tier, true)
	rf := &ReplayFile{Property: prop, Engine: e.Name(), Tier: tier, RunSeed: seed, Tapes: cur, Minimised: budget > 0, MinExecs: execs, OrigDraws: orig}
	if nv == nil || nv.Class != v.Class {
		// minimisation state unusable (should not happen): fall back to the original
		t = ReplayTape(seed, tapes)
		nv, info, _ = runOnce(e, t, prop, tier, true)
		rf.Tapes = cloneTapes(tapes)
		rf.Minimised = false
	}
	if nv != nil {
		rf.Oracle, rf.Class, rf.Detail = nv.Oracle, nv.Class, nv.Detail
	} else {
		rf.Oracle, rf.Class, rf.Detail = v.Oracle, v.Class, v.Detail+" [NOT REPRODUCED ON REPLAY]"
	}
	rf.MinDraws = countDraws(rf.Tapes)
	rf.Config = info.Config
	rf.Fired = info.FiredKinds()
	rf.LogDigest = info.LogDigest()
	rf.Trace = info.Trace
	return rf
}
