package core

import (
	"encoding/json"
	"os"
	"path/filepath"
)

// Finding is one entry of /verif/known_findings.json. An open finding matches
// a violation iff property and class are equal and the fault/Byzantine kinds
// fired in the *minimised* run contain Requires and are contained in
// Requires ∪ Allowed. A "fixed" entry matches nothing.
type Finding struct {
	ID       string   `json:"id"`
	Property string   `json:"property"`
	Class    string   `json:"class"`
	Requires []string `json:"requires_kinds"`
	Allowed  []string `json:"allowed_kinds"`
	Site     string   `json:"site"`
	What     string   `json:"what"`
	Status   string   `json:"status"` // "open" | "fixed: <commit>"
}

type Findings struct {
	Findings []Finding `json:"findings"`
	Fixed    []string  `json:"fixed"`
}

func LoadFindings() *Findings {
	f := &Findings{}
	b, err := os.ReadFile(filepath.Join(VerifDir(), "known_findings.json"))
	if err != nil {
		return f
	}
	_ = json.Unmarshal(b, f)
	return f
}

func (fs *Findings) ByID(id string) *Finding {
	for i := range fs.Findings {
		if fs.Findings[i].ID == id {
			return &fs.Findings[i]
		}
	}
	return nil
}

func (fs *Findings) Match(rf *ReplayFile) string {
	for _, f := range fs.Findings {
		if f.Status != "open" || f.Property != rf.Property || f.Class != rf.Class {
			continue
		}
		fired := map[string]bool{}
		for _, k := range rf.Fired {
			fired[k] = true
		}
		ok := true
		for _, k := range f.Requires {
			if !fired[k] {
				ok = false
			}
		}
		allowed := map[string]bool{}
		for _, k := range f.Requires {
			allowed[k] = true
		}
		for _, k := range f.Allowed {
			allowed[k] = true
		}
		for k := range fired {
			if !allowed[k] && !allowed["*"] {
				ok = false
			}
		}
		if ok {
			return f.ID
		}
	}
	return ""
}
