package core

import (
	"encoding/json"
	"os"
	"path"
	"path/filepath"
)

// Finding is one entry of /verif/known_findings.json. An open finding matches
// a violation iff property and class are equal and the fault/Byzantine kinds
// fired in the *minimised* run contain Requires and are contained in
// Requires ∪ Allowed. A "fixed" entry matches nothing.
type Finding struct {
	ID       string   `json:"id"`
	Property string   `json:"property"`
	Class    string   `json:"class"`
	Classes  []string `json:"classes"` // alternative to Class: any of these
	Requires []string `json:"requires_kinds"`
	ReqAny   []string `json:"requires_any"` // at least one of these must have fired
	Allowed  []string `json:"allowed_kinds"`
	Site     string   `json:"site"`
	What     string   `json:"what"`
	Status   string   `json:"status"` // "open" | "fixed: <commit>"
}

type Findings struct {
	Findings []Finding `json:"findings"`
	Fixed    []string  `json:"fixed"`
}

func LoadFindings() *Findings {
	f := &Findings{}
	b, err := os.ReadFile(filepath.Join(VerifDir(), "known_findings.json"))
	if err != nil {
		return f
	}
	_ = json.Unmarshal(b, f)
	return f
}

func (fs *Findings) ByID(id string) *Finding {
	for i := range fs.Findings {
		if fs.Findings[i].ID == id {
			return &fs.Findings[i]
		}
	}
	return nil
}

// Match identifies a violation as a listed finding. The minimised run is tried
// first; the original (unminimised) run of the same class is accepted as well,
// because shrinking may wander to a neighbouring history of the same class.
func (fs *Findings) Match(rf *ReplayFile) string {
	if id := fs.match(rf.Property, rf.Class, rf.Fired); id != "" {
		return id
	}
	if rf.OrigClass == rf.Class && rf.OrigFired != nil {
		return fs.match(rf.Property, rf.Class, rf.OrigFired)
	}
	return ""
}

func (fs *Findings) match(property, class string, firedKinds []string) string {
	rf := &ReplayFile{Property: property, Class: class, Fired: firedKinds}
	for _, f := range fs.Findings {
		if f.Status != "open" || f.Property != rf.Property {
			continue
		}
		classOK := f.Class != "" && f.Class == rf.Class
		for _, c := range f.Classes {
			// '*' matches one path segment (path.Match semantics)
			if ok, _ := path.Match(c, rf.Class); ok || c == rf.Class {
				classOK = true
			}
		}
		if !classOK {
			continue
		}
		fired := map[string]bool{}
		for _, k := range rf.Fired {
			fired[k] = true
		}
		ok := true
		for _, k := range f.Requires {
			if !fired[k] {
				ok = false
			}
		}
		if len(f.ReqAny) > 0 {
			any := false
			for _, k := range f.ReqAny {
				if fired[k] {
					any = true
				}
			}
			if !any {
				ok = false
			}
		}
		allowed := map[string]bool{}
		for _, k := range f.Requires {
			allowed[k] = true
		}
		for _, k := range f.ReqAny {
			allowed[k] = true
		}
		for _, k := range f.Allowed {
			allowed[k] = true
		}
		for k := range fired {
			if !allowed[k] && !allowed["*"] {
				ok = false
			}
		}
		if ok {
			return f.ID
		}
	}
	return ""
}
