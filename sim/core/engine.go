package core

import (
	"crypto/sha256"
	"encoding/hex"
	"fmt"
	"hash"
	"runtime/debug"
	"sort"
	"strings"
	"testing"
)

// Violation is what an oracle reports. Class is the stable identity of the
// failure (oracle + variant + code site); two runs that fail "the same way"
// have equal Class. Minimisation keeps the class fixed; known findings are
// matched on it together with the set of fault kinds that fired.
type Violation struct {
	Property string `json:"property"`
	Engine   string `json:"engine"`
	Oracle   string `json:"oracle"`
	Class    string `json:"class"`
	Detail   string `json:"detail"`
	// NoShrink: the violation cannot be re-observed inside the same process (the race
	// detector reports each race once per process), so the run is not minimised in-process.
	NoShrink bool `json:"-"`
}

// RunInfo is what one simulated run reports back besides a verdict.
type RunInfo struct {
	Config map[string]any // swarm configuration of this run (small)
	Faults map[string]int // transport/stream faults that actually changed something
	Byz    map[string]int // Byzantine behaviours that actually fired
	Probes map[string]int // rare-branch counters
	Events int
	SimNs  int64
	// FaultClass: "honest" (no fault kind enabled) or "fault".
	FaultClass string
	NonTrivial bool
	log        hash.Hash
	keep       bool
	Trace      []string
	sig        hash.Hash
}

func NewRunInfo(keepTrace bool) *RunInfo {
	return &RunInfo{
		Config: map[string]any{}, Faults: map[string]int{}, Byz: map[string]int{}, Probes: map[string]int{},
		log: sha256.New(), sig: sha256.New(), keep: keepTrace, FaultClass: "honest",
	}
}

// Logf appends a line to the event log (digest always, text only when kept).
// It never draws from the tape and never reads a clock.
func (r *RunInfo) Logf(format string, a ...any) {
	s := fmt.Sprintf(format, a...)
	r.log.Write([]byte(s))
	r.log.Write([]byte{'\n'})
	if r.keep && len(r.Trace) < 4000 {
		r.Trace = append(r.Trace, s)
	}
}

// Notef appends a line to the readable trace only. It is for text whose order the simulator does not
// own (kyber's own log lines, some of which are emitted while ranging over a Go map): it is not part
// of the event-log digest that replays are compared on.
func (r *RunInfo) Notef(format string, a ...any) {
	if r.keep && len(r.Trace) < 4000 {
		r.Trace = append(r.Trace, "~ "+fmt.Sprintf(format, a...))
	}
}

// SigAdd adds a token to the schedule signature (canonical event order).
func (r *RunInfo) SigAdd(format string, a ...any) {
	fmt.Fprintf(r.sig, format, a...)
	r.sig.Write([]byte{0})
}

func (r *RunInfo) Fault(kind string) { r.Faults[kind]++; r.NonTrivial = true; r.FaultClass = "fault" }
func (r *RunInfo) ByzFired(kind string) {
	r.Byz[kind]++
	r.NonTrivial = true
	r.FaultClass = "fault"
}
func (r *RunInfo) Probe(name string) { r.Probes[name]++ }

func (r *RunInfo) LogDigest() string { return hex.EncodeToString(r.log.Sum(nil)) }
func (r *RunInfo) SigDigest() uint64 {
	s := r.sig.Sum(nil)
	var v uint64
	for i := 0; i < 8; i++ {
		v = v<<8 | uint64(s[i])
	}
	return v
}

// FiredKinds is the sorted set of fault and Byzantine kinds that fired.
func (r *RunInfo) FiredKinds() []string {
	var ks []string
	for k, n := range r.Faults {
		if n > 0 {
			ks = append(ks, k)
		}
	}
	for k, n := range r.Byz {
		if n > 0 {
			ks = append(ks, "byz:"+k)
		}
	}
	sort.Strings(ks)
	return ks
}

// Engine is one simulated world. RunOne must be a pure function of the tape
// (and of the code under test).
type Engine interface {
	Name() string
	// RunOne performs one simulated run. prop is the property the check is
	// deciding; an engine may serve several.
	RunOne(t *Tape, prop, tier string, info *RunInfo) *Violation
	// Runs is the number of runs for a tier (before the wall-clock cap).
	Runs(prop, tier string) int
	Real() []string
	Stubs() []string
	Rule() string
}

var engines = map[string]Engine{}

func Register(e Engine) { engines[e.Name()] = e }
func Lookup(name string) Engine {
	return engines[name]
}

// CheckSpec says which engines decide a property.
type CheckSpec struct {
	Property string
	Engines  []string
	Level    string // evidence level
}

var checks = map[string]CheckSpec{}

func RegisterCheck(c CheckSpec) { checks[c.Property] = c }
func LookupCheck(p string) (CheckSpec, bool) {
	c, ok := checks[p]
	return c, ok
}

var lastStack string

// StackNow returns the trimmed stack of the calling goroutine (used inside a recover handler).
func StackNow() string { return trimStack(string(debug.Stack())) }

func trimStack(st string) string {
	var keep []string
	for _, l := range strings.Split(st, "\n") {
		if strings.HasPrefix(l, "\t") && (strings.Contains(l, "/repo/") || strings.Contains(l, "/verif/sim/")) {
			if i := strings.LastIndex(l, " +0x"); i > 0 {
				l = l[:i]
			}
			keep = append(keep, strings.TrimSpace(l))
		}
	}
	if len(keep) > 8 {
		keep = keep[:8]
	}
	return strings.Join(keep, " <- ")
}

// LastStack returns the (trimmed) stack of the most recent panic caught by Guard.
func LastStack() string { return lastStack }

// Guard runs f and converts a panic into a value (nil when no panic).
func Guard(f func()) (p any) {
	defer func() {
		if r := recover(); r != nil {
			p = r
			st := string(debug.Stack())
			// keep only frames below the panic, in kyber or the harness, without addresses
			var keep []string
			for _, l := range strings.Split(st, "\n") {
				if strings.HasPrefix(l, "\t") && (strings.Contains(l, "/repo/") || strings.Contains(l, "/verif/sim/")) {
					if i := strings.LastIndex(l, " +0x"); i > 0 {
						l = l[:i]
					}
					keep = append(keep, strings.TrimSpace(l))
				}
			}
			if len(keep) > 8 {
				keep = keep[:8]
			}
			lastStack = strings.Join(keep, " <- ")
		}
	}()
	f()
	return nil
}

// T is the *testing.T of the dispatcher test (the harness is a test binary so
// that engines may use testing/synctest).
var T *testing.T
