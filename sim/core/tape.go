// Package core holds the parts every engine shares: the labelled choice tape
// (the only source of nondeterminism in a simulated run), the deterministic
// entropy seam, violations, run statistics, the worker/aggregator, replay
// files, minimisation and the evidence writer.
package core

import (
	"crypto/rand"
	"crypto/sha256"
	"encoding/binary"
	mrand "math/rand/v2"
	"sort"
)

// Tape is the labelled choice tape. In generation mode each label owns an
// independent PRNG stream derived from (seed, label); every draw is recorded.
// In replay mode draws come from the recorded slices; reads past the end give
// 0, which by convention is always the boring choice (FIFO delivery, no fault,
// honest behaviour, smallest size).
type Tape struct {
	Seed   uint64
	replay bool
	Rec    map[string][]uint64
	cur    map[string]int
	rngs   map[string]*mrand.PCG
	ctr    uint64
}

// NextCounter returns 1, 2, 3, … per tape (used to keep derived values distinct
// even on zeroed replay tapes).
func (t *Tape) NextCounter() uint64 { t.ctr++; return t.ctr }

func SplitMix(x uint64) uint64 {
	x += 0x9e3779b97f4a7c15
	z := x
	z = (z ^ (z >> 30)) * 0xbf58476d1ce4e5b9
	z = (z ^ (z >> 27)) * 0x94d049bb133111eb
	return z ^ (z >> 31)
}

func hashLabel(s string) uint64 {
	h := sha256.Sum256([]byte(s))
	return binary.LittleEndian.Uint64(h[:8])
}

// RunSeed derives the per-run seed from VERIF_SEED, engine name and run index.
func RunSeed(verifSeed uint64, engine string, run int) uint64 {
	return SplitMix(SplitMix(verifSeed^hashLabel(engine)) + uint64(run)*0x9e3779b97f4a7c15)
}

func NewTape(seed uint64) *Tape {
	return &Tape{Seed: seed, Rec: map[string][]uint64{}, cur: map[string]int{}, rngs: map[string]*mrand.PCG{}}
}

func ReplayTape(seed uint64, rec map[string][]uint64) *Tape {
	cp := map[string][]uint64{}
	for k, v := range rec {
		cp[k] = append([]uint64(nil), v...)
	}
	return &Tape{Seed: seed, replay: true, Rec: cp, cur: map[string]int{}}
}

// Used returns, per label, the recorded prefix actually consumed by the run.
func (t *Tape) Used() map[string][]uint64 {
	out := map[string][]uint64{}
	for k, v := range t.Rec {
		n := len(v)
		if t.replay {
			if c := t.cur[k]; c < n {
				n = c
			}
		}
		out[k] = append([]uint64(nil), v[:n]...)
	}
	return out
}

// Draw returns a value in [0,bound). bound==0 is treated as 1.
func (t *Tape) Draw(label string, bound uint64) uint64 {
	if bound <= 1 {
		// still record, so that tapes keep a stable shape
		bound = 1
	}
	if t.replay {
		c := t.cur[label]
		t.cur[label] = c + 1
		r := t.Rec[label]
		if c >= len(r) {
			return 0
		}
		return r[c] % bound
	}
	g := t.rngs[label]
	if g == nil {
		g = mrand.NewPCG(t.Seed, hashLabel(label))
		t.rngs[label] = g
	}
	v := g.Uint64() % bound
	t.Rec[label] = append(t.Rec[label], v)
	return v
}

func (t *Tape) Intn(label string, n int) int {
	if n <= 0 {
		return 0
	}
	return int(t.Draw(label, uint64(n)))
}

// Range returns a value in [lo,hi] (inclusive); draw 0 gives lo.
func (t *Tape) Range(label string, lo, hi int) int {
	if hi < lo {
		return lo
	}
	return lo + t.Intn(label, hi-lo+1)
}

// Bool is true with probability permille/1000; draw 0 is always false.
func (t *Tape) Bool(label string, permille int) bool {
	v := int(t.Draw(label, 1000))
	return v != 0 && v <= permille
}

// Perm returns a permutation of 0..n-1; all-zero draws give the identity.
func (t *Tape) Perm(label string, n int) []int {
	p := make([]int, n)
	for i := range p {
		p[i] = i
	}
	for i := n - 1; i >= 1; i-- {
		j := i - t.Intn(label, i+1)
		p[i], p[j] = p[j], p[i]
	}
	return p
}

// Bytes returns n pseudo-random bytes determined by one recorded draw.
func (t *Tape) Bytes(label string, n int) []byte {
	s := t.Draw(label, 1<<62)
	return ExpandBytes(s, n)
}

func ExpandBytes(seed uint64, n int) []byte {
	var k [32]byte
	binary.LittleEndian.PutUint64(k[:], seed)
	k[8] = 0x5a
	c := mrand.NewChaCha8(k)
	b := make([]byte, n)
	_, _ = c.Read(b)
	return b
}

// Pick chooses one of the weighted options; option 0 is the boring one and is
// what a zero draw selects.
func (t *Tape) Pick(label string, weights []int) int {
	tot := 0
	for _, w := range weights {
		tot += w
	}
	if tot <= 0 {
		return 0
	}
	v := t.Intn(label, tot)
	for i, w := range weights {
		if v < w {
			return i
		}
		v -= w
	}
	return 0
}

// ---- deterministic entropy seam ----

type detReader struct{ c *mrand.ChaCha8 }

func (d *detReader) Read(p []byte) (int, error) { return d.c.Read(p) }

// SeedEntropy replaces crypto/rand.Reader for the whole process by a
// deterministic stream. kyber's random.New() captures rand.Reader at call
// time, so suite.RandomStream(), ecies.Encrypt, dkg.GetNonce etc. all become
// functions of the seed and of the order of calls (which the simulator owns).
func SeedEntropy(seed uint64) {
	var k [32]byte
	binary.LittleEndian.PutUint64(k[:], seed)
	k[9] = 0xe7
	rand.Reader = &detReader{c: mrand.NewChaCha8(k)}
}

// SortedKeys returns the keys of a string-keyed map in sorted order (the
// harness never ranges over a map when order could matter).
func SortedKeys[V any](m map[string]V) []string {
	ks := make([]string, 0, len(m))
	for k := range m {
		ks = append(ks, k)
	}
	sort.Strings(ks)
	return ks
}

// OtherBytes returns n tape-determined bytes guaranteed to differ from orig
// (also on zeroed replay tapes, where two "random" values would coincide).
func (t *Tape) OtherBytes(label string, orig []byte, n int) []byte {
	b := t.Bytes(label, n)
	if len(orig) == len(b) {
		same := true
		for i := range b {
			if b[i] != orig[i] {
				same = false
				break
			}
		}
		if same && n > 0 {
			b[0] ^= 0x5a
		}
	}
	return b
}
