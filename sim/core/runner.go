package core

import (
	"bytes"
	"encoding/json"
	"fmt"
	"os"
	"os/exec"
	"path/filepath"
	"sort"
	"strconv"
	"strings"
	"time"
)

// VerifDir is where evidence, replays and known findings live.
func VerifDir() string {
	if d := os.Getenv("VERIF_DIR"); d != "" {
		return d
	}
	return "/verif"
}

// ReplayFile is the on-disk form of one violating run.
type ReplayFile struct {
	Property  string              `json:"property"`
	Engine    string              `json:"engine"`
	Tier      string              `json:"tier"`
	Oracle    string              `json:"oracle"`
	Class     string              `json:"class"`
	Detail    string              `json:"detail"`
	VerifSeed uint64              `json:"verif_seed"`
	RunIndex  int                 `json:"run_index"`
	RunSeed   uint64              `json:"run_seed"`
	Config    map[string]any      `json:"config"`
	Fired     []string            `json:"fired_kinds"`
	OrigFired []string            `json:"original_fired_kinds,omitempty"`
	OrigClass string              `json:"original_class,omitempty"`
	Tapes     map[string][]uint64 `json:"tapes"`
	LogDigest string              `json:"event_log_digest"`
	Minimised bool                `json:"minimised"`
	MinExecs  int                 `json:"minimise_executions"`
	OrigDraws int                 `json:"original_draws"`
	MinDraws  int                 `json:"minimised_draws"`
	BuildTags string              `json:"build_tags,omitempty"`
	Trace     []string            `json:"trace"`
	// A run is meant to be a function of its tape. When the code under test keeps state in the
	// process (a package-level cache, a shared object handed out twice), a violation can depend on
	// what EARLIER runs of the same worker process did; the single run then does not reproduce in a
	// fresh process. The file records the worker's stride so that the replay can re-execute the
	// worker's runs from its first one up to this one (needs_history).
	WorkerFrom    int    `json:"worker_from"`
	WorkerStep    int    `json:"worker_step"`
	OrigLogDigest string `json:"original_event_log_digest,omitempty"`
	NeedsHistory  bool   `json:"needs_history,omitempty"`
}

// Sample is one explored case written into the evidence file.
type Sample struct {
	Engine string         `json:"engine"`
	Run    int            `json:"run_index"`
	Config map[string]any `json:"config"`
	Fired  []string       `json:"fired_kinds"`
	Trace  []string       `json:"trace"`
}

// WorkerResult is what one worker process prints on stdout (one JSON object).
type WorkerResult struct {
	Engine     string            `json:"engine"`
	Runs       int               `json:"runs"`
	HonestRuns int               `json:"honest_runs"`
	FaultRuns  int               `json:"fault_runs"`
	Sigs       []uint64          `json:"sigs"`
	SigsCapped bool              `json:"sigs_capped"`
	Faults     map[string]int    `json:"faults"`
	Byz        map[string]int    `json:"byz"`
	Probes     map[string]int    `json:"probes"`
	Events     int               `json:"events"`
	SimNs      int64             `json:"sim_ns"`
	Samples    []Sample          `json:"samples"`
	Violations []string          `json:"violations"` // replay file paths (unknown violations)
	Known      map[string]int    `json:"known"`      // known-finding id -> hits
	KnownRep   map[string]string `json:"known_replays"`
	WallS      float64           `json:"wall_s"`
	CutShort   bool              `json:"cut_short"`
	Fatal      string            `json:"fatal,omitempty"`
}

func addInto(dst, src map[string]int) {
	for k, v := range src {
		dst[k] += v
	}
}

// runOnce executes one run of an engine on a tape, catching harness panics.
func runOnce(e Engine, t *Tape, prop, tier string, keep bool) (v *Violation, info *RunInfo, harnessPanic any) {
	info = NewRunInfo(keep)
	SeedEntropy(SplitMix(t.Seed ^ 0xabcdef))
	if os.Getenv("VERIF_DEBUG_PANIC") != "" {
		v = e.RunOne(t, prop, tier, info)
	} else {
		harnessPanic = Guard(func() { v = e.RunOne(t, prop, tier, info) })
	}
	if v != nil {
		if v.Engine == "" {
			v.Engine = e.Name()
		}
	}
	return
}

// Worker runs indices from, from+step, … < total until the deadline.
const sigCapPerWorker = 400000

func Worker(prop, engine, tier string, verifSeed uint64, from, step, total int, deadline time.Time) *WorkerResult {
	start := time.Now()
	res := &WorkerResult{Engine: engine, Faults: map[string]int{}, Byz: map[string]int{}, Probes: map[string]int{}, Known: map[string]int{}, KnownRep: map[string]string{}}
	e := Lookup(engine)
	if e == nil {
		res.Fatal = "unknown engine " + engine
		return res
	}
	findings := LoadFindings()
	sigs := map[uint64]bool{}
	seenClass := map[string]int{}
	for i := from; i < total; i += step {
		if time.Now().After(deadline) {
			res.CutShort = true
			break
		}
		seed := RunSeed(verifSeed, engine, i)
		t := NewTape(seed)
		keep := len(res.Samples) < 2 && from == 0
		v, info, hp := runOnce(e, t, prop, tier, keep)
		if hp != nil {
			res.Fatal = fmt.Sprintf("harness panic in run %d: %v", i, hp)
			return res
		}
		res.Runs++
		if info.FaultClass == "honest" {
			res.HonestRuns++
		} else {
			res.FaultRuns++
		}
		addInto(res.Faults, info.Faults)
		addInto(res.Byz, info.Byz)
		addInto(res.Probes, info.Probes)
		res.Events += info.Events
		res.SimNs += info.SimNs
		if info.NonTrivial {
			// the signature set is a coverage measure, not an oracle: cap it so that very long
			// thorough batches do not hold tens of millions of entries (reported as a lower bound)
			if len(sigs) < sigCapPerWorker {
				sigs[info.SigDigest()] = true
			} else {
				res.SigsCapped = true
			}
		}
		if keep {
			tr := info.Trace
			if len(tr) > 60 {
				tr = append(append([]string{}, tr[:40]...), fmt.Sprintf("… (%d lines omitted)", len(tr)-40))
			}
			res.Samples = append(res.Samples, Sample{Engine: engine, Run: i, Config: info.Config, Fired: info.FiredKinds(), Trace: tr})
		}
		if v == nil {
			continue
		}
		if v.Property != prop {
			// a violation of another property observed while deciding this one:
			// counted as a probe, reported by that property's own check.
			res.Probes["other-property-violation:"+v.Property+":"+v.Class]++
			continue
		}
		// violation: minimise, classify
		budget := 300
		if seenClass[v.Class] > 0 {
			budget = 60
		}
		if seenClass[v.Class] > 5 {
			budget = 0
		}
		seenClass[v.Class]++
		if v.NoShrink {
			budget = 0
		}
		rf := Minimise(e, prop, tier, t.Used(), seed, v, budget, 60*time.Second)
		rf.VerifSeed = verifSeed
		rf.RunIndex = i
		rf.OrigFired = info.FiredKinds()
		rf.OrigClass = v.Class
		rf.WorkerFrom, rf.WorkerStep, rf.OrigLogDigest = from, step, info.LogDigest()
		if id := findings.Match(rf); id != "" {
			res.Known[id]++
			if res.KnownRep[id] == "" {
				p := filepath.Join(replayDir(), fmt.Sprintf("known-%s-%s-%d-%d.json", prop, sanitize(id), verifSeed, i))
				if err := writeJSON(p, rf); err == nil {
					res.KnownRep[id] = p
				}
			}
			continue
		}
		p := filepath.Join(replayDir(), fmt.Sprintf("%s-%s-%d-%d.json", prop, engine, verifSeed, i))
		if err := writeJSON(p, rf); err != nil {
			res.Fatal = "cannot write replay: " + err.Error()
			return res
		}
		res.Violations = append(res.Violations, p)
		if os.Getenv("VERIF_SURVEY") == "" {
			break
		}
	}
	for s := range sigs {
		res.Sigs = append(res.Sigs, s)
	}
	sort.Slice(res.Sigs, func(a, b int) bool { return res.Sigs[a] < res.Sigs[b] })
	res.WallS = time.Since(start).Seconds()
	return res
}

func sanitize(s string) string {
	var b strings.Builder
	for _, c := range s {
		if c >= 'a' && c <= 'z' || c >= 'A' && c <= 'Z' || c >= '0' && c <= '9' || c == '-' || c == '.' {
			b.WriteRune(c)
		} else {
			b.WriteByte('_')
		}
	}
	return b.String()
}

func writeJSON(path string, v any) error {
	if err := os.MkdirAll(filepath.Dir(path), 0o755); err != nil {
		return err
	}
	b, err := json.MarshalIndent(v, "", " ")
	if err != nil {
		return err
	}
	return os.WriteFile(path, b, 0o644)
}

// Replay re-executes a replay file. Returns the reproduced violation (or nil)
// and whether class and event-log digest match the file.
// replayDir is <verif>/replays, or VERIF_REPLAY_DIR when set (evaluations of seeded changes in a
// scratch checkout must not overwrite the replays of the real tree).
func replayDir() string {
	if d := os.Getenv("VERIF_REPLAY_DIR"); d != "" {
		_ = os.MkdirAll(d, 0o755)
		return d
	}
	return filepath.Join(VerifDir(), "replays")
}

func Replay(path string) (rf *ReplayFile, v *Violation, same bool, err error) {
	b, err := os.ReadFile(path)
	if err != nil {
		return nil, nil, false, err
	}
	rf = &ReplayFile{}
	if err = json.Unmarshal(b, rf); err != nil {
		return nil, nil, false, err
	}
	e := Lookup(rf.Engine)
	if e == nil {
		return rf, nil, false, fmt.Errorf("unknown engine %q", rf.Engine)
	}
	if rf.NeedsHistory || os.Getenv("VERIF_REPLAY_HISTORY") != "" {
		// re-execute the runs of the worker process that found it, from its first run on
		step := rf.WorkerStep
		if step <= 0 {
			step = 1
		}
		var info *RunInfo
		var hp any
		for i := rf.WorkerFrom; i <= rf.RunIndex; i += step {
			v, info, hp = runOnce(e, NewTape(RunSeed(rf.VerifSeed, rf.Engine, i)), rf.Property, rf.Tier, i == rf.RunIndex)
			if hp != nil {
				return rf, nil, false, fmt.Errorf("harness panic in run %d: %v", i, hp)
			}
		}
		if v == nil || info == nil {
			return rf, nil, false, nil
		}
		want := rf.OrigClass
		if want == "" {
			want = rf.Class
		}
		same = v.Class == want && (rf.OrigLogDigest == "" || info.LogDigest() == rf.OrigLogDigest)
		fmt.Printf("(replayed with the history of its worker process: runs %d..%d, stride %d - the violation depends on state that earlier runs left in the process)\n", rf.WorkerFrom, rf.RunIndex, step)
		return rf, v, same, nil
	}
	t := ReplayTape(rf.RunSeed, rf.Tapes)
	v, info, hp := runOnce(e, t, rf.Property, rf.Tier, true)
	if hp != nil {
		return rf, nil, false, fmt.Errorf("harness panic: %v", hp)
	}
	if v == nil {
		return rf, nil, false, nil
	}
	same = v.Class == rf.Class && info.LogDigest() == rf.LogDigest
	if os.Getenv("VERIF_REPLAY_TWICE") != "" {
		// development aid: a second execution in the same process must give the same log
		t2 := ReplayTape(rf.RunSeed, rf.Tapes)
		_, info2, _ := runOnce(e, t2, rf.Property, rf.Tier, true)
		fmt.Fprintf(os.Stderr, "first %s second %s file %s\n", info.LogDigest(), info2.LogDigest(), rf.LogDigest)
	}
	if os.Getenv("VERIF_REPLAY_TRACE") != "" {
		for _, l := range info.Trace {
			fmt.Fprintln(os.Stderr, "  "+l)
		}
	}
	return rf, v, same, nil
}

// ---------------- check (parent) ----------------

type Evidence struct {
	PropertyID  string         `json:"property_id"`
	Tier        string         `json:"tier"`
	Seed        int64          `json:"seed"`
	Level       string         `json:"level"`
	Coverage    map[string]any `json:"coverage"`
	Assumptions []string       `json:"assumptions"`
	WallS       float64        `json:"wall_s"`
	Violations  int            `json:"violations"`
}

// CheckOptions configure one check invocation.
type CheckOptions struct {
	Prop      string
	Tier      string
	Seed      uint64
	Workers   int
	Budget    time.Duration // wall-clock cap for all engines together
	Self      string        // path of this binary
	ExtraCov  map[string]any
	Assume    []string
	RunsScale float64
}

// Check runs all engines of a property across worker processes, aggregates,
// writes evidence and returns the exit code.
func Check(o CheckOptions) int {
	start := time.Now()
	spec, ok := LookupCheck(o.Prop)
	if !ok {
		fmt.Fprintf(os.Stderr, "no check registered for %s\n", o.Prop)
		return 2
	}
	findings := LoadFindings()
	tot := &WorkerResult{Faults: map[string]int{}, Byz: map[string]int{}, Probes: map[string]int{}, Known: map[string]int{}, KnownRep: map[string]string{}}
	sigs := map[string]map[uint64]bool{}
	sigsCapped := false
	perEngine := map[string]any{}
	var real, stubs, rules []string
	deadline := start.Add(o.Budget)
	nEng := len(spec.Engines)
	for ei, en := range spec.Engines {
		e := Lookup(en)
		if e == nil {
			fmt.Fprintf(os.Stderr, "engine %s not linked into this binary\n", en)
			return 2
		}
		real = append(real, e.Real()...)
		stubs = append(stubs, e.Stubs()...)
		rules = append(rules, en+": "+e.Rule())
		total := e.Runs(o.Prop, o.Tier)
		if o.RunsScale > 0 {
			total = int(float64(total) * o.RunsScale)
		}
		if v := os.Getenv("VERIF_RUNS_TOTAL"); v != "" {
			if n, err := strconv.Atoi(v); err == nil && n > 0 {
				total = n // wrapper scripts: an exact number of runs (C20's cold-start phase: one run per process)
			}
		}
		if total < 1 {
			total = 1
		}
		// split the remaining wall budget evenly over the remaining engines
		remain := time.Until(deadline)
		edl := time.Now().Add(remain / time.Duration(nEng-ei))
		w := o.Workers
		if w > total {
			w = total
		}
		type out struct {
			res *WorkerResult
			err error
			raw string
		}
		ch := make(chan out, w)
		for k := 0; k < w; k++ {
			go func(k int) {
				cmd := exec.Command(o.Self, "worker",
					"-prop", o.Prop, "-engine", en, "-tier", o.Tier,
					"-seed", strconv.FormatUint(o.Seed, 10),
					"-from", strconv.Itoa(k), "-step", strconv.Itoa(w), "-total", strconv.Itoa(total),
					"-deadline", strconv.FormatInt(edl.UnixNano(), 10))
				// the result travels in a file: code under test may print to stdout (internal/protobuf does)
				outf := filepath.Join(os.TempDir(), fmt.Sprintf("verif-worker-%d-%s-%d.json", os.Getpid(), en, k))
				cmd.Env = append(os.Environ(), "VERIF_WORKER_OUT="+outf)
				var so, se bytes.Buffer
				cmd.Stdout = &so
				cmd.Stderr = &se
				err := cmd.Run()
				r := &WorkerResult{}
				if err == nil {
					var b []byte
					if b, err = os.ReadFile(outf); err == nil {
						err = json.Unmarshal(b, r)
					}
				}
				os.Remove(outf)
				ch <- out{r, err, so.String() + se.String()}
			}(k)
		}
		er := &WorkerResult{Faults: map[string]int{}, Byz: map[string]int{}, Probes: map[string]int{}}
		sigs[en] = map[uint64]bool{}
		for k := 0; k < w; k++ {
			x := <-ch
			if x.err != nil || x.res.Fatal != "" {
				tail := x.raw
				if len(tail) > 3000 {
					tail = tail[len(tail)-3000:]
				}
				fmt.Fprintf(os.Stderr, "HARNESS-FAULT worker of %s failed: %v %s\n%s\n", en, x.err, x.res.Fatal, tail)
				return 2
			}
			r := x.res
			er.Runs += r.Runs
			er.HonestRuns += r.HonestRuns
			er.FaultRuns += r.FaultRuns
			er.Events += r.Events
			er.SimNs += r.SimNs
			er.CutShort = er.CutShort || r.CutShort
			sigsCapped = sigsCapped || r.SigsCapped
			addInto(er.Faults, r.Faults)
			addInto(er.Byz, r.Byz)
			addInto(er.Probes, r.Probes)
			addInto(tot.Known, r.Known)
			for id, p := range r.KnownRep {
				if tot.KnownRep[id] == "" {
					tot.KnownRep[id] = p
				}
			}
			for _, s := range r.Sigs {
				sigs[en][s] = true
			}
			if len(tot.Samples) < 3 {
				tot.Samples = append(tot.Samples, r.Samples...)
			}
			tot.Violations = append(tot.Violations, r.Violations...)
		}
		tot.Runs += er.Runs
		tot.HonestRuns += er.HonestRuns
		tot.FaultRuns += er.FaultRuns
		tot.Events += er.Events
		tot.SimNs += er.SimNs
		addInto(tot.Faults, er.Faults)
		addInto(tot.Byz, er.Byz)
		addInto(tot.Probes, er.Probes)
		perEngine[en] = map[string]any{
			"runs": er.Runs, "runs_planned": total, "cut_short_by_wall_clock": er.CutShort,
			"honest_class_runs": er.HonestRuns, "fault_class_runs": er.FaultRuns,
			"distinct_nontrivial_signatures": len(sigs[en]), "events": er.Events,
			"faults_fired": er.Faults, "byzantine_behaviours_fired": er.Byz, "probes": er.Probes,
		}
	}
	distinct := 0
	for _, m := range sigs {
		distinct += len(m)
	}
	wall := time.Since(start).Seconds()

	// verify unknown violations in a fresh process
	exit := 0
	sort.Strings(tot.Violations)
	var confirmed []string
	unconfirmed := 0
	for _, p := range tot.Violations {
		ok := false
		var outb []byte
		code := 0
		for attempt := 0; attempt < 2 && !ok; attempt++ {
			cmd := exec.Command(o.Self, "replay", p)
			outb, _ = cmd.CombinedOutput()
			code = cmd.ProcessState.ExitCode()
			ok = code == 1 && bytes.Contains(outb, []byte("REPRODUCED")) && !bytes.Contains(outb, []byte("NOT-REPRODUCED"))
		}
		if !ok {
			// does it depend on what earlier runs left in the worker process? replay with the history
			cmd := exec.Command(o.Self, "replay", p)
			cmd.Env = append(os.Environ(), "VERIF_REPLAY_HISTORY=1")
			hb, _ := cmd.CombinedOutput()
			if cmd.ProcessState.ExitCode() == 1 && bytes.Contains(hb, []byte("REPRODUCED")) && !bytes.Contains(hb, []byte("NOT-REPRODUCED")) && !bytes.Contains(hb, []byte("DIVERGED")) {
				if b, err := os.ReadFile(p); err == nil {
					var rf ReplayFile
					if json.Unmarshal(b, &rf) == nil {
						rf.NeedsHistory = true
						rf.Detail += " [depends on state left in the process by earlier runs of the same worker: replayed with that history]"
						if writeJSON(p, &rf) == nil {
							ok = true
						}
					}
				}
			}
		}
		if ok {
			confirmed = append(confirmed, p)
		} else {
			fmt.Fprintf(os.Stderr, "HARNESS-FAULT replay of %s did not reproduce identically in a fresh process (exit %d):\n%s\n", p, code, outb)
			unconfirmed++
		}
	}
	if unconfirmed > 0 && len(confirmed) == 0 {
		// nothing that was reported could be reproduced: harness trouble, not a verdict
		exit = 2
	}
	for _, id := range sortedKeysInt(tot.Known) {
		f := findings.ByID(id)
		what := id
		if f != nil {
			what = f.What
		}
		fmt.Printf("KNOWN-FINDING: property=%s id=%s hits=%d replay=%s %s\n", o.Prop, id, tot.Known[id], tot.KnownRep[id], what)
	}
	for _, p := range confirmed {
		fmt.Printf("VIOLATION property=%s replay=%s\n", o.Prop, p)
		if b, err := os.ReadFile(p); err == nil {
			var rf ReplayFile
			if json.Unmarshal(b, &rf) == nil {
				fmt.Printf("  class=%s\n  detail=%s\n  fired=%v draws=%d->%d\n", rf.Class, rf.Detail, rf.Fired, rf.OrigDraws, rf.MinDraws)
			}
		}
		if exit == 0 {
			exit = 1
		}
	}

	var samples []any
	for _, s := range tot.Samples {
		samples = append(samples, s)
	}
	if len(samples) > 3 {
		samples = samples[:3]
	}
	cov := map[string]any{
		"evaluations":                tot.Runs,
		"distinct_nontrivial":        distinct,
		"distinct_is_lower_bound":    sigsCapped,
		"rule":                       strings.Join(rules, " || "),
		"samples":                    samples,
		"exhaustive":                 false,
		"honest_class_runs":          tot.HonestRuns,
		"fault_class_runs":           tot.FaultRuns,
		"runs_per_hour":              int(float64(tot.Runs) / wall * 3600),
		"seeds":                      fmt.Sprintf("VERIF_SEED=%d; per-run seed = splitmix(VERIF_SEED, engine, run index)", o.Seed),
		"simulated_events":           tot.Events,
		"simulated_time_s":           float64(tot.SimNs) / 1e9,
		"faults_fired":               tot.Faults,
		"byzantine_behaviours_fired": tot.Byz,
		"probes":                     tot.Probes,
		"per_engine":                 perEngine,
		"real_components":            uniq(real),
		"stub_components":            uniq(stubs),
		"known_findings_hit":         tot.Known,
		"workers":                    o.Workers,
	}
	for k, v := range o.ExtraCov {
		cov[k] = v
	}
	if f := os.Getenv("VERIF_EXTRA_COV"); f != "" {
		// coverage measured by a wrapper script of the same check (e.g. the cross-build diff of C18)
		if b, err := os.ReadFile(f); err == nil {
			var m map[string]any
			if json.Unmarshal(b, &m) == nil {
				for k, v := range m {
					cov[k] = v
				}
			}
		}
	}
	if o.Assume == nil {
		o.Assume = []string{"sampling: a clean batch is evidence over the seeded runs, not a proof"}
	}
	ev := Evidence{PropertyID: o.Prop, Tier: o.Tier, Seed: int64(o.Seed), Level: spec.Level, Coverage: cov,
		Assumptions: o.Assume, WallS: wall, Violations: len(confirmed)}
	evDir := filepath.Join(VerifDir(), "evidence")
	if d := os.Getenv("VERIF_REPLAY_DIR"); d != "" {
		evDir = d // scratch evaluation: keep the evidence of the real tree untouched
	}
	if err := writeJSON(filepath.Join(evDir, o.Prop+".json"), ev); err != nil {
		fmt.Fprintf(os.Stderr, "cannot write evidence: %v\n", err)
		return 2
	}
	fmt.Printf("check %s tier=%s seed=%d runs=%d distinct_nontrivial=%d faults=%d byz=%d violations=%d known=%d wall=%.1fs\n",
		o.Prop, o.Tier, o.Seed, tot.Runs, distinct, sum(tot.Faults), sum(tot.Byz), len(confirmed), len(tot.Known), wall)
	return exit
}

func sum(m map[string]int) int {
	n := 0
	for _, v := range m {
		n += v
	}
	return n
}

func sortedKeysInt(m map[string]int) []string {
	ks := make([]string, 0, len(m))
	for k := range m {
		ks = append(ks, k)
	}
	sort.Strings(ks)
	return ks
}

func uniq(a []string) []string {
	m := map[string]bool{}
	var out []string
	for _, s := range a {
		if !m[s] {
			m[s] = true
			out = append(out, s)
		}
	}
	sort.Strings(out)
	return out
}

// TraceRuns prints, for each run index, the event-log digest, the violation
// class (if any) and optionally the full log: the determinism self-test diffs
// this output across processes and GOMAXPROCS values.
func TraceRuns(prop, engine, tier string, verifSeed uint64, from, to int, verbose bool, w *os.File) {
	e := Lookup(engine)
	if e == nil {
		fmt.Fprintf(w, "unknown engine %s\n", engine)
		return
	}
	for i := from; i < to; i++ {
		seed := RunSeed(verifSeed, engine, i)
		t := NewTape(seed)
		v, info, hp := runOnce(e, t, prop, tier, verbose)
		cls := "-"
		if v != nil {
			cls = v.Class
		}
		fmt.Fprintf(w, "run=%d seed=%d digest=%s sig=%016x draws=%d class=%s panic=%v\n", i, seed, info.LogDigest(), info.SigDigest(), countDraws(t.Rec), cls, hp)
		if verbose {
			cfg, _ := json.Marshal(info.Config)
			fmt.Fprintf(w, "  CONFIG %s FIRED %v\n", cfg, info.FiredKinds())
		}
		if v != nil && verbose {
			fmt.Fprintf(w, "  VIOLATION %s: %s\n", v.Class, v.Detail)
		}
		if verbose {
			for _, l := range info.Trace {
				fmt.Fprintf(w, "  %s\n", l)
			}
		}
	}
}
