// Package proofsim decides C14: Sigma-protocol proofs as *sessions*. kyber's
// provers and verifiers are written against ProverContext / VerifierContext /
// Context; the simulator owns those seams: (a) the repository's own clique
// protocol with DeniableProver goroutines and a simulator-owned leader that
// drops, truncates, flips and replays slots, (b) two-party interactive
// sessions over a faulty stream with the simulator's own contexts, (c)
// HashProve/HashVerify as the zero-network baseline.
package proofsim

import (
	"bytes"
	"errors"
	"fmt"
	"testing"
	"testing/synctest"
	"time"

	"go.dedis.ch/kyber/v4"
	"go.dedis.ch/kyber/v4/group/p256"
	"go.dedis.ch/kyber/v4/pairing/bn256"
	"go.dedis.ch/kyber/v4/proof"

	"verif/sim/core"
	"verif/sim/kit"
)

type Engine struct{}

func init() {
	core.Register(Engine{})
	core.RegisterCheck(core.CheckSpec{Property: "C14", Engines: []string{"proofsim"}, Level: "exploration"})
}

func (Engine) Name() string { return "proofsim" }
func (Engine) Runs(prop, tier string) int {
	if tier == "thorough" {
		return 1200000
	}
	return 45000
}
func (Engine) Real() []string {
	return []string{"proof/proof.go (Rep/And/Or provers and verifiers)", "proof/deniable.go (DeniableProver, verifier goroutines, initStep/proofStep/challengeStep)", "proof/hash.go (HashProve/HashVerify)", "group encodings via suite.Read/Write"}
}
func (Engine) Stubs() []string {
	return []string{"clique leader (proof.Context.Step): collects one message per active participant and hands every participant its view", "two-party ProverContext/VerifierContext over a simulated stream", "fault scripts (drop-out, truncation, bit flips, slot replay, wrong key opening), Byzantine provers"}
}
func (Engine) Rule() string {
	return "one run = one proof session (clique with 2..5 participants | two-party interactive | hash baseline) over a tape-generated predicate tree (<=4 Or-branches, <=4 And-terms, <=3 terms per Rep, shared variables) on Ed25519, P-256 or BN256-G1, with one tape-drawn fault or Byzantine prover; signature = hash of predicate shape, fault and verdicts; non-trivial = a fault or Byzantine behaviour fired"
}

func viol(oracle, class, format string, a ...any) *core.Violation {
	return &core.Violation{Property: "C14", Engine: "proofsim", Oracle: oracle, Class: "C14/" + class, Detail: fmt.Sprintf(format, a...)}
}

// ------------------------------------------------------------ statements

type stmt struct {
	pred   proof.Predicate
	sval   map[string]kyber.Scalar
	pval   map[string]kyber.Point
	choice map[proof.Predicate]int
	shape  string
	proven int // index of the proven Or-branch
	nOr    int
	// secrets that matter for the proven branch (for falsification)
	used []string
	// a false branch index, -1 if all branches are true
	falseBranch int
	top         proof.Predicate // the top-level Or (nil when the statement is a single branch)
}

func rscalar(g kyber.Group, t *core.Tape, label string) kyber.Scalar {
	s := g.Scalar().SetBytes(core.ExpandBytes(t.Draw(label, 1<<62)+core.SplitMix(t.NextCounter()), 48))
	if s.Equal(g.Scalar().Zero()) {
		s = g.Scalar().One()
	}
	return s
}

func genStmt(g kyber.Group, t *core.Tape) *stmt {
	st := &stmt{sval: map[string]kyber.Scalar{}, pval: map[string]kyber.Point{}, choice: map[proof.Predicate]int{}, falseBranch: -1}
	nSec := 1 + t.Intn("pred", 4)
	nBase := 1 + t.Intn("pred", 3)
	for i := 0; i < nSec; i++ {
		st.sval[fmt.Sprintf("x%d", i)] = rscalar(g, t, "pred.val")
	}
	for i := 0; i < nBase; i++ {
		if i == 0 && t.Bool("pred", 500) {
			st.pval["B0"] = g.Point().Base()
		} else {
			st.pval[fmt.Sprintf("B%d", i)] = g.Point().Mul(rscalar(g, t, "pred.val"), nil)
		}
	}
	st.nOr = 1 + t.Intn("pred", 4)
	st.proven = t.Intn("pred", st.nOr)
	var branches []proof.Predicate
	usedSet := map[string]bool{}
	for b := 0; b < st.nOr; b++ {
		nAnd := 1 + t.Intn("pred", 4)
		truth := b == st.proven || t.Bool("pred", 500)
		var reps []proof.Predicate
		repUsed := map[int][]string{}
		for a := 0; a < nAnd; a++ {
			nT := 1 + t.Intn("pred", 3)
			pname := fmt.Sprintf("P%d_%d", b, a)
			args := []string{}
			acc := g.Point().Null()
			for k := 0; k < nT; k++ {
				xs := fmt.Sprintf("x%d", t.Intn("pred", nSec))
				bs := fmt.Sprintf("B%d", t.Intn("pred", nBase))
				args = append(args, xs, bs)
				acc = g.Point().Add(acc, g.Point().Mul(st.sval[xs], st.pval[bs]))
				if b == st.proven {
					repUsed[a] = append(repUsed[a], xs)
				}
			}
			if !truth && a == 0 {
				acc = g.Point().Add(acc, g.Point().Mul(rscalar(g, t, "pred.val"), nil))
				if st.falseBranch < 0 {
					st.falseBranch = b
				}
			}
			st.pval[pname] = acc
			reps = append(reps, proof.Rep(pname, args...))
		}
		nested := false
		switch {
		case st.nOr >= 2 && len(reps) >= 2 && truth && t.Bool("pred", 250):
			// a nested Or (all Ors above all Ands, as the library allows): its first alternative is the true one
			inner := proof.Or(reps...)
			branches = append(branches, inner)
			if b == st.proven {
				st.choice[inner] = 0
				for _, x := range repUsed[0] { // only the proven alternative's secrets matter
					usedSet[x] = true
				}
			}
			st.shape += fmt.Sprintf("[or%d]", nAnd)
			nested = true
		case len(reps) == 1 && t.Bool("pred", 500):
			branches = append(branches, reps[0])
			st.shape += "[rep]"
		case len(reps) >= 3 && t.Bool("pred.group", 400):
			// the same conjunction written as a tree: And(.., And(r_i .. r_j), ..) - an inner And of
			// two or more members with siblings before and/or after it (added after seed C14c: And
			// spliced a nested And into its parent and lost the sibling that followed it)
			i := t.Intn("pred.group", len(reps)-1)
			l := 2 + t.Intn("pred.group", len(reps)-i-1)
			if i == 0 && l == len(reps) {
				l--
			}
			var outer []proof.Predicate
			outer = append(outer, reps[:i]...)
			outer = append(outer, proof.And(append([]proof.Predicate{}, reps[i:i+l]...)...))
			outer = append(outer, reps[i+l:]...)
			branches = append(branches, proof.And(outer...))
			st.shape += fmt.Sprintf("[and%d:nested%d+%d]", nAnd, i, l)
		default:
			branches = append(branches, proof.And(reps...))
			st.shape += fmt.Sprintf("[and%d]", nAnd)
		}
		if b == st.proven && !nested {
			for _, xs := range repUsed {
				for _, x := range xs {
					usedSet[x] = true
				}
			}
		}
	}
	if st.nOr == 1 && t.Bool("pred", 600) {
		st.pred = branches[0]
	} else {
		or := proof.Or(branches...)
		st.pred = or
		st.top = or
		st.choice[or] = st.proven
	}
	for _, k := range core.SortedKeys(usedSet) {
		st.used = append(st.used, k)
	}
	st.shape = fmt.Sprintf("or%d%s", st.nOr, st.shape)
	return st
}

func pickSuite(t *core.Tape) (proof.Suite, string) {
	switch t.Pick("cfg.suite", []int{6, 2, 2}) {
	case 1:
		return p256.NewBlakeSHA256P256(), "p256"
	case 2:
		return bn256.NewSuiteG1(), "bn256-g1"
	}
	return kit.Ed(), "ed25519"
}

func (Engine) RunOne(t *core.Tape, prop, tier string, info *core.RunInfo) *core.Violation {
	switch t.Pick("cfg.mode", []int{4, 3, 3}) {
	case 1:
		return runTwoParty(t, info)
	case 2:
		return runHash(t, info)
	}
	return runClique(t, info)
}

// ------------------------------------------------------------ (c) hash baseline

func runHash(t *core.Tape, info *core.RunInfo) *core.Violation {
	suite, sn := pickSuite(t)
	st := genStmt(suite, t)
	info.Config["mode"], info.Config["suite"], info.Config["pred"] = "hash", sn, st.pred.String()
	// the protocol name is a message of any length (it doubles as the signed message when proofs are
	// used as signatures): short names, and long ones whose difference lies beyond the first 64, 128,
	// ... bytes (seed C14f: the name was cut to 64 bytes before it keyed the challenge)
	protoA, protoB := "proto-A", "proto-B"
	if t.Bool("cfg.name", 400) {
		ln := []int{63, 64, 65, 100, 128, 129, 200, 300}[t.Intn("cfg.name", 8)]
		nb := make([]byte, ln+1)
		for i := range nb {
			nb[i] = 'a' + byte(i%23)
		}
		protoA = string(nb)
		nb[ln] ^= 1 // the two names agree on their first ln bytes
		protoB = string(nb)
		info.Config["name_len"] = ln + 1
	}
	prv := st.pred.Prover(suite, st.sval, st.pval, st.choice)
	var pf []byte
	var err error
	if pn := core.Guard(func() { pf, err = proof.HashProve(suite, protoA, prv) }); pn != nil {
		return viol("totality", "hash/prove-panic/"+sn, "HashProve panicked on %s: %v | %s", st.pred, pn, core.LastStack())
	}
	if err != nil {
		return viol("completeness", "hash/prove-error/"+sn, "HashProve(%s): %v", st.pred, err)
	}
	ver := func() proof.Verifier { return st.pred.Verifier(suite, st.pval) }
	check := func(name string, proofBytes []byte, proto string, v proof.Verifier, wantOK bool) *core.Violation {
		var verr error
		if pn := core.Guard(func() { verr = proof.HashVerify(suite, proto, v, proofBytes) }); pn != nil {
			return viol("totality", "hash/verify-panic/"+sn+"/"+name, "HashVerify panicked (%s): %v | %s", name, pn, core.LastStack())
		}
		info.Events++
		info.SigAdd("h:%s:%s:%v", st.pred.String(), name, verr == nil)
		if (verr == nil) != wantOK {
			if wantOK {
				return viol("completeness", "hash/valid-proof-rejected/"+sn, "valid proof of %s rejected: %v", st.pred, verr)
			}
			return viol("soundness", "hash/accepted/"+sn+"/"+name, "HashVerify accepted although %s (predicate %s)", name, st.pred)
		}
		return nil
	}
	if v := check("valid", pf, protoA, ver(), true); v != nil {
		return v
	}
	if t.Bool("fault.adaptive", 150) {
		return adaptiveForger(t, info, suite, sn, protoA)
	}
	switch t.Intn("fault", 7) {
	case 0:
		info.Fault("other-protocol-name")
		return check("other-protocol-name", pf, protoB, ver(), false)
	case 1:
		b := kit.CopyBytes(pf)
		k := t.Intn("fault", len(b)*8)
		b[k/8] ^= 1 << (k % 8)
		info.Fault("bit-flip")
		return check("bit-flip", b, protoA, ver(), false)
	case 2:
		info.Fault("truncated")
		return check("truncated", pf[:t.Intn("fault", len(pf))], protoA, ver(), false)
	case 3:
		// other public points: one Rep point of the proven branch replaced
		pv := map[string]kyber.Point{}
		for k, v := range st.pval {
			pv[k] = v
		}
		name := fmt.Sprintf("P%d_0", st.proven)
		pv[name] = suite.Point().Add(pv[name], suite.Point().Base())
		info.Fault("other-public-point")
		return check("other-public-point", pf, protoA, st.pred.Verifier(suite, pv), false)
	case 4:
		// falsified secret
		if len(st.used) == 0 {
			return nil
		}
		sv := map[string]kyber.Scalar{}
		for k, v := range st.sval {
			sv[k] = v
		}
		k := st.used[t.Intn("fault", len(st.used))]
		sv[k] = suite.Scalar().Add(sv[k], suite.Scalar().One())
		info.ByzFired("falsified-secret")
		var bad []byte
		var perr error
		if pn := core.Guard(func() { bad, perr = proof.HashProve(suite, protoA, st.pred.Prover(suite, sv, st.pval, st.choice)) }); pn != nil {
			return viol("totality", "hash/prove-panic/"+sn, "HashProve with a falsified secret panicked: %v", pn)
		}
		if perr != nil {
			return nil
		}
		return check("falsified-secret", bad, protoA, ver(), false)
	case 5:
		// claims a branch it cannot satisfy
		if st.falseBranch < 0 || st.nOr < 2 {
			return nil
		}
		if st.top == nil {
			return nil
		}
		ch := map[proof.Predicate]int{}
		for p, c := range st.choice {
			ch[p] = c
		}
		ch[st.top] = st.falseBranch
		info.ByzFired("claims-false-branch")
		var bad []byte
		var perr error
		if pn := core.Guard(func() { bad, perr = proof.HashProve(suite, protoA, st.pred.Prover(suite, st.sval, st.pval, ch)) }); pn != nil {
			return viol("totality", "hash/prove-panic/"+sn, "HashProve claiming a false branch panicked: %v", pn)
		}
		if perr != nil {
			return nil
		}
		return check("claims-false-branch", bad, protoA, ver(), false)
	case 6:
		// checked against a different predicate (another statement over the same suite)
		o := genStmt(suite, t)
		if o.pred.String() == st.pred.String() {
			return nil
		}
		info.Fault("other-predicate")
		// points of both statements are available to the verifier; names may collide, the other statement wins
		pv := map[string]kyber.Point{}
		for k, v := range st.pval {
			pv[k] = v
		}
		for k, v := range o.pval {
			pv[k] = v
		}
		return check("other-predicate", pf, protoA, o.pred.Verifier(suite, pv), false)
	}
	return nil
}

// ------------------------------------------------------------ (b) two-party interactive sessions

// The prover and the verifier run as two tasks released one at a time; the
// simulated stream between them carries encoded values and may corrupt,
// truncate or replace them.
type tpMsg struct {
	data []byte
}

type tpProver struct {
	suite  proof.Suite
	out    *bytes.Buffer // bytes put since the last challenge
	toV    chan []byte
	fromV  chan []byte
	rnd    kyber.XOF
	closed bool
}

func (c *tpProver) Put(m any) error { return c.suite.Write(c.out, m) }
func (c *tpProver) PubRand(data ...any) error {
	c.toV <- kit.CopyBytes(c.out.Bytes())
	c.out.Reset()
	ch, ok := <-c.fromV
	if !ok {
		return errors.New("verifier gone")
	}
	return c.suite.Read(bytes.NewReader(ch), data...)
}
func (c *tpProver) PriRand(data ...any) error { return c.suite.Read(c.rnd, data...) }

type tpVerifier struct {
	suite proof.Suite
	in    *bytes.Buffer
	fromP chan []byte
	toP   chan []byte
	rnd   kyber.XOF
}

func (c *tpVerifier) Get(m any) error {
	return c.suite.Read(c.in, m)
}
func (c *tpVerifier) PubRand(data ...any) error {
	// fresh challenge from the verifier's own randomness, sent to the prover as bytes
	if err := c.suite.Read(c.rnd, data...); err != nil {
		return err
	}
	var b bytes.Buffer
	if err := c.suite.Write(&b, data...); err != nil {
		return err
	}
	c.toP <- b.Bytes()
	// next prover message
	m, ok := <-c.fromP
	if !ok {
		return errors.New("prover gone")
	}
	c.in = bytes.NewBuffer(m)
	return nil
}

func runTwoParty(t *core.Tape, info *core.RunInfo) *core.Violation {
	suite, sn := pickSuite(t)
	st := genStmt(suite, t)
	info.Config["mode"], info.Config["suite"], info.Config["pred"] = "two-party", sn, st.pred.String()
	fault := "none"
	if !t.Bool("cfg.class", 200) {
		fault = []string{"none", "flip-commit", "flip-response", "truncate-commit", "truncate-response", "falsified-secret", "other-public-point", "replay-other-session"}[t.Intn("fault", 8)]
	}
	info.Config["fault"] = fault
	sval := st.sval
	vpval := st.pval
	switch fault {
	case "falsified-secret":
		if len(st.used) == 0 {
			fault = "none"
			break
		}
		sval = map[string]kyber.Scalar{}
		for k, v := range st.sval {
			sval[k] = v
		}
		k := st.used[t.Intn("fault", len(st.used))]
		sval[k] = suite.Scalar().Add(sval[k], suite.Scalar().One())
		info.ByzFired("falsified-secret")
	case "other-public-point":
		vpval = map[string]kyber.Point{}
		for k, v := range st.pval {
			vpval[k] = v
		}
		name := fmt.Sprintf("P%d_0", st.proven)
		vpval[name] = suite.Point().Add(vpval[name], suite.Point().Base())
		info.Fault("other-public-point")
	}
	// a transcript of an earlier session of the same prover (for the replay fault)
	var oldCommit, oldResp []byte
	session := func(record bool, seed uint64) (perr, verr error, pn any) {
		toV, toP := make(chan []byte), make(chan []byte)
		pc := &tpProver{suite: suite, out: &bytes.Buffer{}, toV: toV, fromV: toP, rnd: suite.XOF(core.ExpandBytes(seed, 32))}
		vc := &tpVerifier{suite: suite, fromP: toV, toP: toP, rnd: suite.XOF(core.ExpandBytes(seed+1, 32))}
		prv := st.pred.Prover(suite, sval, st.pval, st.choice)
		vrf := st.pred.Verifier(suite, vpval)
		pdone, vdone := make(chan error, 1), make(chan error, 1)
		var ppanic, vpanic any
		// network in the middle: a relay task that may damage messages
		relayP2V := make(chan []byte)
		vc.fromP = relayP2V
		vgone := make(chan struct{})
		go func() {
			defer close(relayP2V)
			k := 0
			for m := range toV {
				if record {
					if k == 0 {
						oldCommit = kit.CopyBytes(m)
					} else {
						oldResp = kit.CopyBytes(m)
					}
				} else {
					switch {
					case fault == "flip-commit" && k == 0, fault == "flip-response" && k == 1:
						if len(m) > 0 {
							x := t.Intn("fault", len(m)*8)
							m[x/8] ^= 1 << (x % 8)
							info.Fault(fault)
						}
					case fault == "truncate-commit" && k == 0, fault == "truncate-response" && k == 1:
						if len(m) > 0 {
							m = m[:t.Intn("fault", len(m))]
							info.Fault(fault)
						}
					case fault == "replay-other-session" && k == 0 && oldCommit != nil:
						m = oldCommit
						info.Fault(fault)
					case fault == "replay-other-session" && k == 1 && oldResp != nil:
						m = oldResp
					}
				}
				k++
				select {
				case relayP2V <- m:
				case <-vgone:
				}
			}
		}()
		go func() {
			defer func() {
				if r := recover(); r != nil {
					ppanic = r
				}
				close(toV)
				pdone <- perr
			}()
			perr = prv(pc)
			if perr == nil {
				// the final message (responses) after the last challenge
				toV <- kit.CopyBytes(pc.out.Bytes())
			}
		}()
		go func() {
			defer func() {
				if r := recover(); r != nil {
					vpanic = r
				}
				close(toP)
				close(vgone)
				vdone <- verr
			}()
			m, ok := <-vc.fromP
			if !ok {
				verr = errors.New("prover gone")
				return
			}
			vc.in = bytes.NewBuffer(m)
			verr = vrf(vc)
		}()
		hang := false
		for got := 0; got < 2; {
			select {
			case <-pdone:
				got++
			case <-vdone:
				got++
			case <-time.After(time.Hour): // fake clock: fires only when every task is durably blocked
				hang = true
				got = 2
			}
		}
		if hang {
			return nil, nil, "hang: prover and verifier are both blocked"
		}
		if ppanic != nil {
			return perr, verr, fmt.Sprintf("prover panic: %v", ppanic)
		}
		if vpanic != nil {
			return perr, verr, fmt.Sprintf("verifier panic: %v", vpanic)
		}
		return perr, verr, nil
	}
	var perr, verr error
	var pn any
	func() {
		defer func() {
			if r := recover(); r != nil {
				// end-of-bubble complaint about tasks still parked on a channel
				info.Probe("bubble-ended-with-parked-tasks")
			}
		}()
		synctest.Test(core.T, func(_ *testing.T) {
			if fault == "replay-other-session" {
				session(true, t.Draw("cfg.seed", 1<<40))
			}
			perr, verr, pn = session(false, t.Draw("cfg.seed", 1<<40)+7)
		})
	}()
	info.Events += 3
	info.SigAdd("tp:%s:%s:%v:%v", st.pred.String(), fault, perr == nil, verr == nil)
	info.Logf("two-party %s fault=%s: prover err=%v verifier err=%v panic=%v", st.pred, fault, perr, verr, pn)
	if pn != nil {
		return viol("totality", "twoparty/panic-or-hang/"+sn+"/"+fault, "two-party session (%s, fault %s): %v", st.pred, fault, pn)
	}
	switch fault {
	case "none":
		if perr != nil || verr != nil {
			return viol("completeness", "twoparty/honest-session-rejected/"+sn, "honest interactive session for %s failed: prover=%v verifier=%v", st.pred, perr, verr)
		}
	default:
		if verr == nil {
			return viol("soundness", "twoparty/accepted/"+sn+"/"+fault, "interactive verifier accepted although the session had fault %s (predicate %s)", fault, st.pred)
		}
	}
	return nil
}

// ------------------------------------------------------------ (a) clique sessions

type cevent struct {
	step []byte
	done bool
	errs []error
	pan  any
}

type cpart struct {
	id       int
	st       *stmt
	verifies []bool
	vonly    bool // honest participant without a statement of its own: it only verifies the others
	byz      string
	ev       chan cevent
	reply    chan [][]byte
	finished bool
	dropped  bool
	errs     []error
	pan      any
	rnd      kyber.XOF
}

func (p *cpart) Step(msg []byte) ([][]byte, error) {
	p.ev <- cevent{step: kit.CopyBytes(msg)}
	r, ok := <-p.reply
	if !ok || r == nil {
		return nil, errors.New("dropped from the clique")
	}
	return r, nil
}
func (p *cpart) Random() kyber.XOF { return p.rnd }

const keySize = 128 // size of the randomness commitment in a clique message (protocol constant of proof/deniable.go)

func runClique(t *core.Tape, info *core.RunInfo) *core.Violation {
	suite, sn := pickSuite(t)
	k := 2 + t.Intn("cfg", 4)
	honestClass := t.Bool("cfg.class", 200)
	info.Config["mode"], info.Config["suite"], info.Config["participants"] = "clique", sn, k
	parts := make([]*cpart, k)
	for i := range parts {
		parts[i] = &cpart{id: i, st: genStmt(suite, t), verifies: make([]bool, k),
			rnd: suite.XOF(core.ExpandBytes(t.Draw("cfg.seed", 1<<40)+uint64(i)*977, 32))}
	}
	// a ring: every participant proves the SAME statement over the same public points (each from its
	// own copy of the secrets). Per-peer verifier state that leaks from one peer to the next is only
	// visible then (seed C14k: a silent peer was verified with the previous peer's proof bytes).
	if k >= 3 && t.Bool("cfg.samestmt", 300) {
		for i := 1; i < k; i++ {
			c := *parts[0].st
			c.choice = map[proof.Predicate]int{}
			for pr, b := range parts[0].st.choice {
				c.choice[pr] = b
			}
			parts[i].st = &c
		}
		info.Config["same_statement"] = true
		info.Faults["same-statement-for-all"]++
	}
	for i, p := range parts {
		for j := range parts {
			if j != i && t.Bool("cfg.verify", 600) {
				p.verifies[j] = true
			}
		}
	}
	fault, victim, fround, onlyFor := "none", -1, 0, -1
	if !honestClass {
		fault = []string{"none", "falsified-secret", "drop-out", "truncate-below-commitment", "truncate-proof", "flip-proof-byte", "flip-commitment-byte", "replay-slot-of-other-session", "wrong-key-opening", "claims-false-branch", "rushing-key-forger", "lone-key-forger"}[t.Intn("fault", 12)]
		victim = t.Intn("fault", k)
		// every predicate is a 3-move Sigma protocol, so a clique session has exactly three rounds:
		// 0 = randomness commitment + prover commitments, 1 = opened random keys, 2 = commitment + responses.
		// A fault is placed where it means something.
		switch fault {
		case "flip-commitment-byte":
			fround = 0 // the commitment of round 2 is never opened: altering it changes nothing
		case "wrong-key-opening":
			fround = 1
		case "flip-proof-byte", "truncate-proof", "replay-slot-of-other-session":
			fround = 2 * t.Intn("fault", 2)
		default:
			fround = t.Intn("fault", 3)
		}
		if t.Bool("fault", 250) {
			onlyFor = t.Intn("fault", k)
		}
	}
	// verify-only participants: honest nodes that prove nothing themselves (their first message is the
	// bare randomness commitment) and that nobody verifies
	var vo []int
	for i, p := range parts {
		pm := 150
		if fault == "lone-key-forger" {
			pm = 700
		}
		if i != victim && t.Bool("cfg.vonly", pm) {
			p.vonly = true
			vo = append(vo, i)
			for _, q := range parts {
				q.verifies[i] = false
			}
		}
	}
	info.Config["verify_only"] = vo
	info.Config["fault"], info.Config["victim"], info.Config["round"], info.Config["only_for"] = fault, victim, fround, onlyFor
	anyVerifiesVictim := false
	for i, p := range parts {
		if victim >= 0 && i != victim && p.verifies[victim] {
			anyVerifiesVictim = true
		}
	}
	if fault == "falsified-secret" {
		v := parts[victim]
		if len(v.st.used) == 0 {
			fault = "none"
		} else {
			sv := map[string]kyber.Scalar{}
			for n, s := range v.st.sval {
				sv[n] = s
			}
			n := v.st.used[t.Intn("fault", len(v.st.used))]
			sv[n] = suite.Scalar().Add(sv[n], suite.Scalar().One())
			v.st.sval = sv
			v.byz = fault
			info.ByzFired(fault)
		}
	}
	if fault == "claims-false-branch" {
		v := parts[victim]
		if v.st.falseBranch < 0 || v.st.top == nil {
			fault = "none"
		} else {
			v.st.choice[v.st.top] = v.st.falseBranch
			v.byz = fault
			info.ByzFired(fault)
		}
	}
	// A rushing forger: it does not know the witness of its statement X = x*B. It commits to a random key,
	// waits for the honest keys of the challenge round, and opens the key that steers the common challenge
	// to the value its pre-computed first message answers. The opened key cannot match its commitment.
	var forge struct {
		on      bool
		lone    bool // the forger opens its key honestly and bets on being the only contributor to the challenge
		target  []byte
		V, X    kyber.Point
		r       kyber.Scalar
		fakeKey []byte
	}
	if fault == "rushing-key-forger" || fault == "lone-key-forger" {
		forge.on = true
		forge.lone = fault == "lone-key-forger"
		forge.target = t.Bytes("fault.val", keySize)
		forge.fakeKey = t.Bytes("fault.val", keySize)
		forge.X = suite.Point().Mul(rscalar(suite, t, "fault.val"), nil)
		forge.r = rscalar(suite, t, "fault.val")
		c := suite.Scalar()
		_ = suite.Read(suite.XOF(forge.target), c)
		forge.V = suite.Point().Add(suite.Point().Mul(forge.r, nil), suite.Point().Mul(c, forge.X))
		st := &stmt{pred: proof.Rep("X", "x", "B"), pval: map[string]kyber.Point{"X": forge.X, "B": suite.Point().Base()}, sval: map[string]kyber.Scalar{}, choice: map[proof.Predicate]int{}, shape: "forged-rep"}
		parts[victim].st = st
		parts[victim].byz = fault
		for i, p := range parts {
			if i != victim {
				p.verifies[victim] = true // everybody checks the newcomer
			}
		}
		info.ByzFired(fault)
	}
	forgerMsg := func(round int, cur [][]byte) []byte {
		var b bytes.Buffer
		switch round {
		case 0:
			c := make([]byte, keySize)
			if forge.lone {
				_, _ = suite.XOF(forge.target).Read(c)
			} else {
				_, _ = suite.XOF(forge.fakeKey).Read(c)
			}
			b.Write(c)
			_ = suite.Write(&b, forge.V)
		case 1:
			key := kit.CopyBytes(forge.target)
			for i, m := range cur {
				if !forge.lone && i != victim && len(m) >= keySize {
					for j := 0; j < keySize; j++ {
						key[j] ^= m[j]
					}
				}
			}
			b.Write(key)
		case 2:
			b.Write(t.Bytes("fault.val", keySize))
			_ = suite.Write(&b, forge.r)
		default:
			return nil
		}
		return b.Bytes()
	}
	var oldSlot []byte // the victim's first-round slot from an earlier session
	var hang string
	fired := false

	run := func() {
		// every channel is created inside the bubble, so that blocking on it is "durable"
		for _, p := range parts {
			p.ev, p.reply = make(chan cevent), make(chan [][]byte)
		}
		defer func() {
			// release whoever is still parked in Step so that its task can end
			for _, p := range parts {
				close(p.reply)
			}
			for _, p := range parts {
				if p.finished {
					continue
				}
				select {
				case <-p.ev:
				case <-time.After(time.Hour):
				}
			}
		}()
		start := func(p *cpart) {
			vrfs := make([]proof.Verifier, k)
			for j, q := range parts {
				if p.verifies[j] {
					vrfs[j] = q.st.pred.Verifier(suite, q.st.pval)
				}
			}
			prv := p.st.pred.Prover(suite, p.st.sval, p.st.pval, p.st.choice)
			if p.vonly {
				prv = func(proof.ProverContext) error { return nil }
			}
			proto := proof.DeniableProver(suite, p.id, prv, vrfs)
			go func() {
				var errs []error
				defer func() {
					if r := recover(); r != nil {
						p.ev <- cevent{done: true, pan: fmt.Sprintf("%v | %s", r, stackHere())}
						return
					}
					p.ev <- cevent{done: true, errs: errs}
				}()
				errs = proto(p)
			}()
		}
		// wait for the next event of one participant (tasks run one at a time)
		next := func(p *cpart) (cevent, bool) {
			select {
			case e := <-p.ev:
				return e, true
			case <-time.After(time.Hour): // fake clock: only fires when everything is durably blocked
				return cevent{}, false
			}
		}
		cur := make([][]byte, k)
		active := make([]bool, k)
		for _, p := range parts {
			if forge.on && p.id == victim {
				p.finished = true // simulated by the leader, not a task
				continue
			}
			start(p)
			e, ok := next(p)
			if !ok {
				hang = fmt.Sprintf("participant %d never reached its first step", p.id)
				return
			}
			if e.done {
				p.finished, p.errs, p.pan = true, e.errs, e.pan
				continue
			}
			cur[p.id], active[p.id] = e.step, true
		}
		for round := 0; round < 40; round++ {
			any := false
			for i := range active {
				if active[i] {
					any = true
				}
			}
			if !any {
				return
			}
			if round == 0 && fault == "replay-slot-of-other-session" && victim >= 0 {
				oldSlot = nil // filled below from a scratch message of the right shape
			}
			if forge.on {
				cur[victim] = forgerMsg(round, cur)
			}
			nxt := make([][]byte, k)
			nact := make([]bool, k)
			for i, p := range parts {
				if !active[i] {
					continue
				}
				// this participant's view of the round
				view := make([][]byte, k)
				for j := range cur {
					view[j] = kit.CopyBytes(cur[j])
				}
				if victim >= 0 && round == fround && (onlyFor < 0 || onlyFor == i) && i != victim && cur[victim] != nil {
					m := view[victim]
					switch fault {
					case "truncate-below-commitment":
						view[victim] = m[:t.Intn("fault", minInt(len(m), keySize))]
						fired = true
					case "truncate-proof":
						if len(m) > keySize {
							view[victim] = m[:keySize+t.Intn("fault", len(m)-keySize)]
							fired = true
						}
					case "flip-proof-byte":
						if len(m) > keySize {
							x := keySize*8 + t.Intn("fault", (len(m)-keySize)*8)
							view[victim][x/8] ^= 1 << (x % 8)
							fired = true
						}
					case "flip-commitment-byte", "wrong-key-opening":
						if len(m) > 0 {
							x := t.Intn("fault", minInt(len(m), keySize)*8)
							view[victim][x/8] ^= 1 << (x % 8)
							fired = true
						}
					case "replay-slot-of-other-session":
						// the same participant's slot from another session: fresh commitment and proof bytes of
						// the same lengths, produced by the same code path earlier (a scratch run would do; the
						// cheapest faithful stand-in is a different random string of identical shape)
						view[victim] = t.Bytes("fault.val", len(m))
						fired = true
					}
				}
				if fault == "drop-out" && victim >= 0 && round >= fround && i != victim {
					view[victim] = nil
					if cur[victim] != nil || round == fround {
						fired = true
					}
				}
				if fault == "drop-out" && i == victim && round >= fround {
					// the victim is cut off: it gets no reply any more
					p.dropped = true
					continue
				}
				p.reply <- view
				e, ok := next(p)
				if !ok {
					hang = fmt.Sprintf("participant %d is blocked for ever after round %d", p.id, round)
					return
				}
				if e.done {
					p.finished, p.errs, p.pan = true, e.errs, e.pan
					continue
				}
				nxt[i], nact[i] = e.step, true
			}
			cur, active = nxt, nact
			info.Events += k
		}
	}
	func() {
		defer func() {
			if r := recover(); r != nil {
				info.Probe("bubble-ended-with-parked-tasks")
			}
		}()
		synctest.Test(core.T, func(_ *testing.T) { run() })
	}()
	_ = oldSlot
	if fired && fault != "none" {
		info.Fault(fault)
	}
	info.SigAdd("cl:%d:%s:%d:%d:%d", k, fault, victim, fround, onlyFor)
	for _, p := range parts {
		info.SigAdd("%s:%v", p.st.pred.String(), p.verifies)
	}
	for _, p := range parts {
		info.Logf("participant %d (%s vonly=%v) verifies=%v finished=%v dropped=%v errs=%v panic=%v", p.id, p.st.shape, p.vonly, p.verifies, p.finished, p.dropped, p.errs, p.pan)
	}
	for _, p := range parts {
		if p.pan != nil {
			return viol("totality", "clique/panic/"+fault, "participant %d panicked (fault %s on participant %d, round %d): %v", p.id, fault, victim, fround, p.pan)
		}
	}
	if hang != "" {
		return viol("totality", "clique/hang/"+fault, "%s (fault %s on participant %d, round %d)", hang, fault, victim, fround)
	}
	effective := fault != "none" && (fired || parts[maxInt(victim, 0)].byz != "")
	if forge.on {
		fired = true
	}
	for i, p := range parts {
		if p.dropped || !p.finished {
			continue
		}
		if !effective {
			for j, e := range p.errs {
				if (j == i || p.verifies[j]) && e != nil {
					return viol("completeness", "clique/honest-session-error/"+sn, "fault-free clique session: participant %d reports an error for slot %d: %v", i, j, e)
				}
			}
			continue
		}
		if i == victim || !p.verifies[victim] {
			continue
		}
		if onlyFor >= 0 && onlyFor != i && fault != "falsified-secret" && fault != "claims-false-branch" && fault != "drop-out" {
			continue
		}
		// whatever happened to participant i's own run (it may have aborted in the key exchange), the
		// slot of a participant whose proof was not verified to the end must not read "accepted" (seed
		// C14h: a verdict was written provisionally after the first message and survived an abort)
		if p.errs[victim] == nil {
			return viol("soundness", "clique/accepted/"+sn+"/"+fault, "participant %d accepted participant %d although: %s (round %d; its own slot: %v)", i, victim, fault, fround, p.errs[i])
		}
		info.Probe("clique-fault-detected")
	}
	_ = anyVerifiesVictim
	return nil
}

func minInt(a, b int) int {
	if a < b {
		return a
	}
	return b
}
func maxInt(a, b int) int {
	if a > b {
		return a
	}
	return b
}

func stackHere() string { return core.StackNow() }

// adaptiveForger is a third-party prover that follows the Fiat-Shamir rule of the hash-based proofs
// (challenge = suite.Read(XOF(protocol name) reseeded and fed with all commitment bytes)) but fixes
// its LAST commitment after it has seen the challenge: it does not know the discrete logarithm of the
// last statement point. In a sound scheme the changed commitment changes the challenge and the proof
// is refused. (Seed C14j: long commitment strings were absorbed in whole 256-byte blocks only, so a
// commitment in the unabsorbed tail could be chosen afterwards.) The statement is an And of k
// representation statements P_i = x_i*B, k = 1..16, so that the commitment string passes several
// block boundaries of the hash.
func adaptiveForger(t *core.Tape, info *core.RunInfo, suite proof.Suite, sn, proto string) *core.Violation {
	k := 1 + t.Intn("fault.adaptive", 16)
	B := suite.Point().Base()
	var reps []proof.Predicate
	pval := map[string]kyber.Point{"B": B}
	xs := make([]kyber.Scalar, k)
	vs := make([]kyber.Scalar, k)
	var commits bytes.Buffer
	V := make([]kyber.Point, k)
	for i := 0; i < k; i++ {
		xs[i] = rscalar(suite, t, "fault.val")
		vs[i] = rscalar(suite, t, "fault.val")
		name := fmt.Sprintf("P%d", i)
		pval[name] = suite.Point().Mul(xs[i], nil)
		reps = append(reps, proof.Rep(name, fmt.Sprintf("x%d", i), "B"))
		V[i] = suite.Point().Mul(vs[i], nil)
	}
	// the last statement point is somebody else's: the forger does not know its logarithm
	// (control runs: it does, answers honestly and leaves the proof alone - and must be accepted)
	control := t.Bool("fault.adaptive.ctl", 200)
	if !control {
		pval[fmt.Sprintf("P%d", k-1)] = suite.Point().Mul(rscalar(suite, t, "fault.val"), nil)
	}
	var pred proof.Predicate = reps[0]
	if k > 1 {
		pred = proof.And(reps...)
	}
	// The forger drives the library's own prover context (a proof.Prover is any function of a
	// ProverContext): it puts k commitments, the last one a placeholder, takes the challenge that the
	// context hands out, answers, and afterwards writes c*Y + r*B over the placeholder in the proof.
	var c kyber.Scalar
	r := rscalar(suite, t, "fault.val")
	forger := proof.Prover(func(ctx proof.ProverContext) error {
		for i := 0; i < k; i++ {
			if err := ctx.Put(V[i]); err != nil {
				return err
			}
		}
		c = suite.Scalar()
		if err := ctx.PubRand(c); err != nil {
			return err
		}
		for i := 0; i < k; i++ {
			ri := suite.Scalar().Sub(vs[i], suite.Scalar().Mul(c, xs[i]))
			if i == k-1 && !control {
				ri = r
			}
			if err := ctx.Put(ri); err != nil {
				return err
			}
		}
		return nil
	})
	var pfb []byte
	var perr error
	if pn := core.Guard(func() { pfb, perr = proof.HashProve(suite, proto, forger) }); pn != nil || perr != nil {
		info.Probe("adaptive-forger-prover-context-failed")
		return nil
	}
	plen := suite.PointLen()
	if len(pfb) != k*(plen+suite.ScalarLen()) {
		info.Probe("adaptive-forger-unexpected-proof-length")
		return nil
	}
	Y := pval[fmt.Sprintf("P%d", k-1)]
	V[k-1] = suite.Point().Add(suite.Point().Mul(c, Y), suite.Point().Mul(r, nil)) // fits c, if c stays
	var pf bytes.Buffer
	pf.Write(pfb)
	if !control {
		vb, _ := V[k-1].MarshalBinary()
		copy(pf.Bytes()[(k-1)*plen:], vb)
	}
	_ = commits
	info.Config["mode"], info.Config["suite"], info.Config["pred"] = "hash", sn, fmt.Sprintf("and-of-%d-reps", k)
	if control {
		info.Fault("custom-prover-following-the-protocol")
	} else {
		info.ByzFired("commitment-chosen-after-the-challenge")
	}
	info.SigAdd("adaptive:%d:%s:%v", k, sn, control)
	var verr error
	if pn := core.Guard(func() { verr = proof.HashVerify(suite, proto, pred.Verifier(suite, pval), pf.Bytes()) }); pn != nil {
		return viol("totality", "hash/verify-panic/"+sn+"/adaptive-forger", "HashVerify panicked: %v | %s", pn, core.LastStack())
	}
	if control {
		if verr != nil {
			return viol("completeness", "hash/rejected/"+sn+"/custom-prover-following-the-protocol", "a prover function that follows the protocol for And of %d Reps through the library's prover context is refused: %v", k, verr)
		}
		info.Events++
		return nil
	}
	if verr == nil {
		return viol("soundness", "hash/accepted/"+sn+"/commitment-chosen-after-the-challenge", "a proof of And of %d Reps whose last commitment was fixed after the challenge (prover without the last secret) is accepted", k)
	}
	// sanity of the forger itself: with the true challenge recomputed over the final commitments it
	// must be the honest prover's proof format (an honest variant verifies)
	info.Events++
	return nil
}
