// Package modsim is the part of C18's build-variant clause that concerns group/mod.Int,
// the scalar type of most groups: under the build tag "constantTime" it is a different
// implementation (compatible/bigmod instead of math/big). A run is a replicated op log:
// the same seeded sequence of API calls on a small pool of Ints; the "replicas" are the
// binaries that checks/C18.sh builds under {default, constantTime, constantTime+purego},
// and the state after every call goes into the transcript, which the check diffs.
// There is no in-process oracle (and no reference model): the builds are compared with
// each other.
package modsim

import (
	"crypto/sha256"
	"fmt"
	"math"
	"math/big"
	"strings"

	"go.dedis.ch/kyber/v4"
	"go.dedis.ch/kyber/v4/compatible"
	"go.dedis.ch/kyber/v4/compatible/compatiblemod"
	"go.dedis.ch/kyber/v4/group/mod"

	"verif/sim/core"
)

type Engine struct{}

func init() { core.Register(Engine{}) }

func (Engine) Name() string { return "modsim" }
func (Engine) Runs(prop, tier string) int {
	if tier == "thorough" {
		return 200000
	}
	return 4000
}
func (Engine) Real() []string {
	return []string{"group/mod.Int (both implementations: int.go over math/big, constant_time_int.go over compatible/bigmod)", "compatible, compatible/compatiblemod, compatible/bigmod"}
}
func (Engine) Stubs() []string {
	return []string{"none: the op log is applied to the real type; builds are compared by transcript"}
}
func (Engine) Rule() string {
	return "one run = one modulus, a pool of 4 Ints, <= 30 tape-drawn calls with pool slots as receiver and operands; signature = the call sequence"
}

var moduli = []struct {
	name string
	m    *big.Int
}{
	{"ed25519-order", bi("7237005577332262213973186563042994240857116359379907606001950938285454250989")},
	{"2^255-19", new(big.Int).Sub(new(big.Int).Lsh(big.NewInt(1), 255), big.NewInt(19))},
	{"p256-order", bi("115792089210356248762697446949407573529996955224135760342422259061068512044369")},
	{"65537", big.NewInt(65537)},
	{"251", big.NewInt(251)},
	{"2^61-1", new(big.Int).Sub(new(big.Int).Lsh(big.NewInt(1), 61), big.NewInt(1))},
	{"2^89-1", new(big.Int).Sub(new(big.Int).Lsh(big.NewInt(1), 89), big.NewInt(1))},
}

func bi(s string) *big.Int { v, _ := new(big.Int).SetString(s, 10); return v }

var edgeInts = []int64{0, 1, -1, 2, -2, 3, 250, 251, 252, 65536, 65537, -65537, math.MaxInt64, math.MinInt64 + 1, 1 << 32, -(1 << 32)}

func drawInt(t *core.Tape) int64 {
	if t.Bool("val", 750) {
		return edgeInts[t.Intn("val", len(edgeInts))]
	}
	return int64(t.Draw("val", math.MaxUint64))
}

func drawBytes(t *core.Tape, ml int) []byte {
	var n int
	switch t.Intn("val", 6) {
	case 0:
		n = 0
	case 1:
		n = 1 + t.Intn("val", 3)
	case 2:
		n = ml
	case 3:
		n = ml + 1 + t.Intn("val", 40)
	default:
		n = t.Intn("val", 2*ml+3)
	}
	b := t.Bytes("val", n)
	switch t.Intn("val", 5) {
	case 0:
		for i := range b {
			b[i] = 0xff
		}
	case 1:
		for i := range b {
			b[i] = 0
		}
	case 2:
		if len(b) > 0 {
			b[0], b[len(b)-1] = 0, 0
		}
	}
	// whole machine words of zeros at one end: values like 2^64*k, whose lowest limb says nothing
	// about them (the defect repaired by 2df5f9a compared lowest limbs only; the thorough tier found
	// it at run 4345, the quick tier should not depend on that luck)
	if len(b) >= 9 && t.Bool("val.limb", 300) {
		k := 8
		if len(b) >= 17 && t.Bool("val.limb", 400) {
			k = 16
		}
		z := b[:k]
		if t.Bool("val.limb", 500) {
			z = b[len(b)-k:]
		}
		for i := range z {
			z[i] = 0
		}
	}
	return b
}

func state(pool []*mod.Int) string {
	h := sha256.New()
	var parts []string
	for _, v := range pool {
		// String() is left out on purpose: the two implementations print differently (the default
		// one prints the minimal hex form, "" for zero; the constant-time one a fixed-length form) -
		// an observation (DESIGN 9.3), not an encoding
		var enc []byte
		var err error
		pn := core.Guard(func() { enc, err = v.MarshalBinary() })
		s := fmt.Sprintf("%x|%v|%v", enc, err != nil, pn != nil)
		h.Write([]byte(s))
		part := fmt.Sprintf("%x", enc)
		if err != nil {
			part += "!err"
		}
		if pn != nil {
			part += "!panic"
		}
		parts = append(parts, part)
	}
	// the order relation is part of the state: every value against a fresh zero and one of its own
	// modulus (short operands) and against its successor in the pool. (The defect repaired by 2df5f9a
	// - Equal/Cmp looked at the lowest limbs only when the operands had different announced lengths -
	// was only visible when the call sequence happened to compare such a pair.)
	rel := ""
	for i, v := range pool {
		v := v
		w := pool[(i+1)%len(pool)]
		if pn := core.Guard(func() {
			z, o := mod.NewInt64(0, v.M), mod.NewInt64(1, v.M)
			rel += fmt.Sprintf("%d%d%d%t%t%t,", v.Cmp(z)+1, v.Cmp(o)+1, v.Cmp(w)+1, z.Equal(v), v.Equal(o), v.Equal(w))
		}); pn != nil {
			rel += "panic,"
		}
	}
	return fmt.Sprintf("%x [%s] %s", h.Sum(nil)[:8], strings.Join(parts, " "), rel)
}

func (Engine) RunOne(t *core.Tape, prop, tier string, info *core.RunInfo) *core.Violation {
	mi := t.Intn("cfg", len(moduli))
	M := compatiblemod.FromBigInt(moduli[mi].m)
	ml := (moduli[mi].m.BitLen() + 7) / 8
	info.Config["modulus"] = moduli[mi].name
	info.NonTrivial = true
	info.FaultClass = "honest"
	const nV = 4
	pool := make([]*mod.Int, nV)
	for i := range pool {
		bo := kyber.BigEndian
		if t.Bool("cfg", 400) {
			bo = kyber.LittleEndian
		}
		if t.Bool("cfg", 500) {
			v := drawInt(t)
			info.Logf("init %d: NewInt64(%d) %v", i, v, bo)
			if pn := core.Guard(func() { pool[i] = mod.NewInt64(v, M) }); pn != nil {
				info.Logf("init %d: NewInt64(%d) PANIC", i, v)
				pool[i] = mod.NewInt64(0, M)
			}
			pool[i].BO = bo
		} else {
			b := drawBytes(t, ml)
			info.Logf("init %d: NewIntBytes(%x) %v", i, b, bo)
			if pn := core.Guard(func() { pool[i] = mod.NewIntBytes(b, M, bo) }); pn != nil {
				info.Logf("init %d: NewIntBytes(%x) PANIC", i, b)
				pool[i] = mod.NewInt64(0, M)
				pool[i].BO = bo
			}
		}
	}
	info.Logf("init %s", state(pool))
	steps := 1 + t.Intn("prog", 30)
	var trace []string
	for st := 1; st <= steps; st++ {
		kind := t.Intn("prog", 20)
		r, a, b := t.Intn("prog", nV), t.Intn("prog", nV), t.Intn("prog", nV)
		var desc, obs string
		var op func()
		switch kind {
		case 0:
			desc, op = fmt.Sprintf("v%d.Add(v%d,v%d)", r, a, b), func() { pool[r].Add(pool[a], pool[b]) }
		case 1:
			desc, op = fmt.Sprintf("v%d.Sub(v%d,v%d)", r, a, b), func() { pool[r].Sub(pool[a], pool[b]) }
		case 2:
			desc, op = fmt.Sprintf("v%d.Neg(v%d)", r, a), func() { pool[r].Neg(pool[a]) }
		case 3:
			desc, op = fmt.Sprintf("v%d.Mul(v%d,v%d)", r, a, b), func() { pool[r].Mul(pool[a], pool[b]) }
		case 4, 5:
			if !pool[b].Nonzero() {
				continue
			}
			if kind == 4 {
				desc, op = fmt.Sprintf("v%d.Div(v%d,v%d)", r, a, b), func() { pool[r].Div(pool[a], pool[b]) }
			} else {
				desc, op = fmt.Sprintf("v%d.Inv(v%d)", r, b), func() { pool[r].Inv(pool[b]) }
			}
		case 6:
			// exponents below, at and above the modulus (the doc of Exp: "not necessarily 0 <= e < M")
			var e *big.Int
			switch t.Intn("val", 6) {
			case 0:
				e = big.NewInt(int64(t.Intn("val", 5)))
			case 1:
				e = new(big.Int).Sub(moduli[mi].m, big.NewInt(1))
			case 2:
				e = new(big.Int).Set(moduli[mi].m)
			case 3:
				e = new(big.Int).Add(moduli[mi].m, big.NewInt(int64(1+t.Intn("val", 5))))
			case 4:
				e = new(big.Int).Add(new(big.Int).Lsh(moduli[mi].m, 1), big.NewInt(1))
			default:
				e = new(big.Int).SetBytes(t.Bytes("val", 1+t.Intn("val", 40)))
			}
			big2 := compatiblemod.FromBigInt(new(big.Int).Lsh(big.NewInt(1), 400))
			desc, op = fmt.Sprintf("v%d.Exp(v%d,%s)", r, a, e), func() { pool[r].Exp(pool[a], compatible.FromBigInt(e, big2)) }
		case 7:
			v := drawInt(t)
			desc, op = fmt.Sprintf("v%d.SetInt64(%d)", r, v), func() { pool[r].SetInt64(v) }
		case 8:
			v := uint64(drawInt(t))
			desc, op = fmt.Sprintf("v%d.SetUint64(%d)", r, v), func() { pool[r].SetUint64(v) }
		case 9:
			desc, op = fmt.Sprintf("v%d.Zero()", r), func() { pool[r].Zero() }
		case 10:
			desc, op = fmt.Sprintf("v%d.One()", r), func() { pool[r].One() }
		case 11:
			desc, op = fmt.Sprintf("v%d.Set(v%d)", r, a), func() { pool[r].Set(pool[a]) }
		case 12:
			desc, op = fmt.Sprintf("v%d=v%d.Clone()", r, a), func() { pool[r] = pool[a].Clone().(*mod.Int) }
		case 13:
			bs := drawBytes(t, ml)
			desc, op = fmt.Sprintf("v%d.SetBytes(%x)", r, bs), func() { pool[r].SetBytes(bs) }
		case 14:
			desc, op = fmt.Sprintf("v%d.Unmarshal(v%d.Marshal)", r, a), func() {
				enc, err := pool[a].MarshalBinary()
				if err != nil {
					obs = "marshal-err"
					return
				}
				// byte orders may differ between the two slots: re-encode in the receiver's order
				if pool[a].BO != pool[r].BO {
					for i, j := 0, len(enc)-1; i < j; i, j = i+1, j-1 {
						enc[i], enc[j] = enc[j], enc[i]
					}
				}
				keep := pool[r].Clone().(*mod.Int)
				ok := pool[r].UnmarshalBinary(enc) == nil
				if !ok {
					pool[r] = keep // a refused decode may leave anything in the receiver (C04's business)
				}
				obs = fmt.Sprint(ok)
			}
		case 15:
			// crafted encodings: the modulus itself, modulus+-1, all ones, wrong lengths
			var v *big.Int
			switch t.Intn("val", 5) {
			case 0:
				v = new(big.Int).Set(moduli[mi].m)
			case 1:
				v = new(big.Int).Add(moduli[mi].m, big.NewInt(1))
			case 2:
				v = new(big.Int).Sub(moduli[mi].m, big.NewInt(1))
			case 3:
				v = new(big.Int).Sub(new(big.Int).Lsh(big.NewInt(1), uint(8*ml)), big.NewInt(1))
			default:
				v = big.NewInt(0)
			}
			enc := v.FillBytes(make([]byte, ml))
			if pool[r].BO == kyber.LittleEndian {
				for i, j := 0, len(enc)-1; i < j; i, j = i+1, j-1 {
					enc[i], enc[j] = enc[j], enc[i]
				}
			}
			if t.Bool("val", 150) {
				enc = enc[:len(enc)-1]
			} else if t.Bool("val", 150) {
				enc = append(enc, 0)
			}
			desc, op = fmt.Sprintf("v%d.UnmarshalBinary(%x)", r, enc), func() {
				keep := pool[r].Clone().(*mod.Int)
				ok := pool[r].UnmarshalBinary(enc) == nil
				if !ok {
					pool[r] = keep
				}
				obs = fmt.Sprint(ok)
			}
		case 16:
			mn, mx := t.Intn("val", ml+4), t.Intn("val", ml+4)
			desc, op = fmt.Sprintf("v%d.BigEndian(%d,%d)", a, mn, mx), func() { obs = fmt.Sprintf("%x", pool[a].BigEndian(mn, mx)) }
		case 17:
			mn, mx := t.Intn("val", ml+4), t.Intn("val", ml+4)
			desc, op = fmt.Sprintf("v%d.LittleEndian(%d,%d)", a, mn, mx), func() { obs = fmt.Sprintf("%x", pool[a].LittleEndian(mn, mx)) }
		case 18:
			desc, op = fmt.Sprintf("v%d.Cmp/Equal(v%d)", a, b), func() {
				obs = fmt.Sprintf("%d %v %v", pool[a].Cmp(pool[b]), pool[a].Equal(pool[b]), pool[a].Nonzero())
			}
		default:
			desc, op = fmt.Sprintf("v%d.String/Size", a), func() { _ = pool[a].String(); obs = fmt.Sprintf("%d", pool[a].MarshalSize()) }
		}
		trace = append(trace, desc)
		if pn := core.Guard(op); pn != nil {
			obs = "PANIC"
		}
		info.Logf("step %d %s -> %s | %s", st, desc, obs, state(pool))
		info.Events++
	}
	info.SigAdd("mod:%s:%s", moduli[mi].name, strings.Join(trace, ";"))
	return nil
}
