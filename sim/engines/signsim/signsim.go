// Package signsim decides C09: signing *sessions* of threshold BLS, BDN
// multi-signatures and CoSi with n signers, aggregators, a lossy, duplicating,
// reordering, corrupting board and Byzantine signers.
package signsim

import (
	"bytes"
	"crypto/sha256"
	"fmt"

	"go.dedis.ch/kyber/v4"
	"go.dedis.ch/kyber/v4/pairing"
	circl "go.dedis.ch/kyber/v4/pairing/bls12381/circl"
	gnark "go.dedis.ch/kyber/v4/pairing/bls12381/gnark"
	kilic "go.dedis.ch/kyber/v4/pairing/bls12381/kilic"
	"go.dedis.ch/kyber/v4/pairing/bn254"
	"go.dedis.ch/kyber/v4/pairing/bn256"
	"go.dedis.ch/kyber/v4/share"
	"go.dedis.ch/kyber/v4/sign"
	"go.dedis.ch/kyber/v4/sign/bdn"
	"go.dedis.ch/kyber/v4/sign/bls"
	"go.dedis.ch/kyber/v4/sign/tbls"

	"verif/sim/core"
	"verif/sim/kit"
)

type Engine struct{}

func init() {
	core.Register(Engine{})
	core.RegisterCheck(core.CheckSpec{Property: "C09", Engines: []string{"signsim"}, Level: "exploration"})
}

func (Engine) Name() string { return "signsim" }
func (Engine) Runs(prop, tier string) int {
	if tier == "thorough" {
		return 120000
	}
	return 9000
}
func (Engine) Real() []string {
	return []string{"sign/tbls", "sign/bls", "sign/bdn (scheme + Mask)", "sign/cosi (Commit, AggregateCommitments, Challenge, Response, AggregateResponses, Sign, Verify, Mask, policies)",
		"share/poly.go (PriPoly, PubPoly, RecoverCommit)", "pairing/bn256, pairing/bn254, pairing/bls12381/{kilic,circl,gnark}", "group/edwards25519"}
}
func (Engine) Stubs() []string {
	return []string{"signer drivers (broadcast own partial / signature / commitment / response)", "aggregator driver (append arrivals in arrival order, call Recover whenever the slice has >= t entries)",
		"CoSi leader logic (kyber has none): collect commitments, restart the round with a smaller mask when a signer vanishes", "board transport with loss, duplication, reordering, corruption"}
}
func (Engine) Rule() string {
	return "one run = one signing session (TBLS | BDN | CoSi) over a tape-drawn suite/group assignment, n, t, message, set of live/Byzantine signers and board faults; signature = hash of the arrival order with verdicts; non-trivial = a fault or Byzantine behaviour fired or an arrival overtook another"
}

type combo struct {
	name  string
	suite func() pairing.Suite
	onG1  bool
}

var combos = []combo{
	{"bn256/G1", func() pairing.Suite { return bn256.NewSuite() }, true},
	{"bn254/G1", func() pairing.Suite { return bn254.NewSuite() }, true},
	{"kilic/G1", func() pairing.Suite { return kilic.NewBLS12381Suite() }, true},
	{"kilic/G2", func() pairing.Suite { return kilic.NewBLS12381Suite() }, false},
	{"circl/G1", func() pairing.Suite { return circl.NewSuite() }, true},
	{"circl/G2", func() pairing.Suite { return circl.NewSuite() }, false},
	{"gnark/G1", func() pairing.Suite { return gnark.NewSuite() }, true},
	{"gnark/G2", func() pairing.Suite { return gnark.NewSuite() }, false},
}

func viol(oracle, class, format string, a ...any) *core.Violation {
	return &core.Violation{Property: "C09", Engine: "signsim", Oracle: oracle, Class: "C09/" + class, Detail: fmt.Sprintf(format, a...)}
}

func (Engine) RunOne(t *core.Tape, prop, tier string, info *core.RunInfo) *core.Violation {
	switch t.Pick("cfg.kind", []int{5, 3, 3}) {
	case 1:
		return runBDN(t, tier, info)
	case 2:
		return runCoSi(t, tier, info)
	}
	return runTBLS(t, tier, info)
}

func groups(c combo, s pairing.Suite) (key, sig kyber.Group) {
	if c.onG1 {
		return s.G2(), s.G1()
	}
	return s.G1(), s.G2()
}

// ------------------------------------------------------------------ TBLS

type arrival struct {
	sig   []byte
	valid bool // harness knowledge: byte-identical to the unique honest partial of its index
	idx   int
	kind  string
}

func runTBLS(t *core.Tape, tier string, info *core.RunInfo) *core.Violation {
	c := combos[t.Intn("cfg", len(combos))]
	suite := c.suite()
	keyG, sigG := groups(c, suite)
	var ts sign.ThresholdScheme
	var bs sign.Scheme
	if c.onG1 {
		ts, bs = tbls.NewThresholdSchemeOnG1(suite), bls.NewSchemeOnG1(suite)
	} else {
		ts, bs = tbls.NewThresholdSchemeOnG2(suite), bls.NewSchemeOnG2(suite)
	}
	maxN := 6
	if tier == "thorough" {
		maxN = 8
	}
	n := t.Range("cfg", 2, maxN)
	th := t.Range("cfg", 2, n)
	honestClass := t.Bool("cfg.class", 120)
	msg := kit.DrawMsg(t, "cfg", 40)
	info.Config["session"], info.Config["suite"], info.Config["n"], info.Config["t"] = "tbls", c.name, n, th

	secret := keyG.Scalar().SetBytes(t.Bytes("keys", 48))
	pri := share.NewPriPoly(keyG, uint32(th), secret, suite.RandomStream())
	pub := pri.Commit(keyG.Point().Base())
	shares := pri.Shares(uint32(n))
	want, err := bs.Sign(secret, msg)
	if err != nil {
		return viol("setup", "tbls/setup-sign/"+c.name, "bls.Sign: %v", err)
	}
	if err := bs.Verify(pub.Commit(), rx(msg), want); err != nil {
		return viol("bls", "bls/honest-signature-rejected/"+c.name, "a BLS signature does not verify under the signer's key: %v", err)
	}
	// another message of the SAME length, and every message is handed to the verifier in one reused
	// receive buffer (rx): a verifier that remembers its last message by reference instead of by
	// value then confuses the two (seed C09e)
	other := kit.CopyBytes(msg)
	other[len(other)-1] ^= 0x7
	if bs.Verify(pub.Commit(), rx(other), want) == nil {
		return viol("bls", "bls/accepted-for-other-message/"+c.name, "a BLS signature verifies for another message")
	}
	otherKey := keyG.Point().Mul(keyG.Scalar().SetBytes(t.Bytes("keys", 48)), nil)
	if !otherKey.Equal(pub.Commit()) && bs.Verify(otherKey, rx(msg), want) == nil {
		return viol("bls", "bls/accepted-for-other-key/"+c.name, "a BLS signature verifies under another key")
	}
	honest := make([][]byte, n)
	for i := 0; i < n; i++ {
		p, err := ts.Sign(shares[i], msg)
		if err != nil {
			return viol("setup", "tbls/partial-sign/"+c.name, "tbls.Sign: %v", err)
		}
		honest[i] = p
	}
	// who speaks
	nByz := 0
	if !honestClass && n-th > 0 && t.Bool("cfg", 600) {
		nByz = 1 + t.Intn("cfg", n-th)
	}
	byz := map[int]bool{}
	for _, b := range t.Perm("cfg.byz", n)[:nByz] {
		byz[b] = true
	}
	dupPm, dropPm, corruptPm := 0, 0, 0
	if !honestClass {
		if t.Bool("cfg", 500) {
			dupPm = 100 + t.Intn("cfg", 400)
		}
		if t.Bool("cfg", 400) {
			dropPm = 50 + t.Intn("cfg", 250)
		}
		if t.Bool("cfg", 350) {
			corruptPm = 50 + t.Intn("cfg", 200)
		}
	}
	info.Config["byz"], info.Config["dup_pm"], info.Config["drop_pm"], info.Config["corrupt_pm"] = nByz, dupPm, dropPm, corruptPm

	var posted []arrival
	for i := 0; i < n; i++ {
		if !byz[i] {
			posted = append(posted, arrival{sig: honest[i], valid: true, idx: i, kind: "honest"})
			continue
		}
		k := t.Intn("byz", 8)
		var a arrival
		switch k {
		case 0: // partial on another message
			p, _ := ts.Sign(shares[i], other)
			a = arrival{sig: p, idx: i, kind: "other-message"}
		case 1: // another index prefix on a valid value
			p := kit.CopyBytes(honest[i])
			j := (i + 1 + t.Intn("byz", n-1)) % n
			p[0], p[1] = byte(j>>8), byte(j)
			a = arrival{sig: p, idx: j, kind: "index-prefix-changed"}
		case 2: // share of a different polynomial
			o := share.NewPriPoly(keyG, uint32(th), nil, suite.RandomStream()).Shares(uint32(n))
			p, _ := ts.Sign(o[i], msg)
			a = arrival{sig: p, idx: i, kind: "other-polynomial"}
		case 3: // somebody else's partial under own index
			j := (i + 1 + t.Intn("byz", n-1)) % n
			p := kit.CopyBytes(honest[j])
			p[0], p[1] = byte(i>>8), byte(i)
			a = arrival{sig: p, idx: i, kind: "copied-from-other"}
		case 4:
			a = arrival{sig: t.Bytes("byz.val", t.Intn("byz", 120)), idx: -1, kind: "random-bytes"}
		case 5:
			p := t.Bytes("byz.val", len(honest[i]))
			p[0], p[1] = byte(i>>8), byte(i)
			a = arrival{sig: p, idx: i, kind: "right-length-garbage"}
		case 6: // valid, but sent three times
			a = arrival{sig: honest[i], valid: true, idx: i, kind: "valid-thrice"}
			posted = append(posted, a, a)
		case 7: // silent
			info.ByzFired("silent")
			continue
		}
		info.ByzFired(a.kind)
		posted = append(posted, a)
	}
	// one aggregator's view of the board: reordered, duplicated, lossy, corrupted
	nAgg := 1 + t.Intn("cfg", 3)
	var recovered [][]byte
	for ag := 0; ag < nAgg; ag++ {
		var view []arrival
		for _, a := range posted {
			if dropPm > 0 && t.Bool("net.drop", dropPm) {
				info.Fault("drop")
				continue
			}
			copies := 1
			if dupPm > 0 && t.Bool("net.dup", dupPm) {
				copies = 2 + t.Intn("net.dup", 2)
				info.Fault("duplicate")
			}
			for k := 0; k < copies; k++ {
				b := a
				if corruptPm > 0 && t.Bool("net.corrupt", corruptPm) && len(a.sig) > 0 {
					b.sig = kit.CopyBytes(a.sig)
					switch t.Intn("net.corrupt", 3) {
					case 0:
						x := t.Intn("net.corrupt", len(b.sig)*8)
						b.sig[x/8] ^= 1 << (x % 8)
					case 1:
						b.sig = b.sig[:t.Intn("net.corrupt", len(b.sig))]
					case 2:
						b.sig = append(b.sig, byte(t.Intn("net.corrupt", 256)))
					}
					b.valid, b.kind = false, a.kind+"+corrupted"
					// "semantically different": a damaged encoding that still decodes to the same index
					// and the same point is the same partial (C09 exempts it; strict decoding is C03/C04)
					// The damage may also turn an INVALID partial into a valid one: a signer's copy of
					// somebody else's partial under its own index, whose index prefix a bit flip turns
					// back into the original owner's (false alarm of the thorough sweep with seed 7,
					// DESIGN 9.4). So validity is judged from the bytes that arrive: index k < n and a
					// point equal to THE partial of signer k.
					if len(b.sig) > 2 {
						if k := int(b.sig[0])<<8 | int(b.sig[1]); k < n {
							hp, bp := sigG.Point(), sigG.Point()
							if hp.UnmarshalBinary(honest[k][2:]) == nil && core.Guard(func() {
								if bp.UnmarshalBinary(b.sig[2:]) != nil {
									bp = nil
								}
							}) == nil && bp != nil && bp.Equal(hp) {
								b.valid = true
								if a.valid && k == a.idx {
									b.kind = a.kind + "+reencoded"
									info.Probe("damaged-encoding-same-partial")
								} else {
									b.idx = k
									b.kind = a.kind + "+damage-made-it-the-partial-of-another-signer"
									info.Probe("damage-made-a-valid-partial")
								}
							}
						}
					}
					info.Fault("corrupt")
				}
				view = append(view, b)
			}
		}
		perm := t.Perm("sched", len(view))
		for i := range perm {
			if perm[i] != i {
				info.NonTrivial = true
			}
		}
		var sigs [][]byte
		validIdx := map[int]bool{}
		crashAt := -1
		if !honestClass && t.Bool("sched.crash", 200) && len(view) > 1 {
			crashAt = t.Intn("sched.crash", len(view))
		}
		var last []byte
		for step, k := range perm {
			a := view[k]
			if step == crashAt {
				// crash-restart of the aggregator: the collected set is lost; signers re-broadcast
				sigs, validIdx = nil, map[int]bool{}
				info.Fault("aggregator-crash-restart")
				info.Logf("agg%d crash-restart", ag)
			}
			info.Events++
			var verr error
			if pn := core.Guard(func() { verr = ts.VerifyPartial(pub, rx(msg), a.sig) }); pn != nil {
				return viol("totality", "tbls/verifypartial-panic/"+c.name, "VerifyPartial(%s, %d bytes) panicked: %v | %s", a.kind, len(a.sig), pn, core.LastStack())
			}
			info.SigAdd("%d:%s:%d:%v", ag, a.kind, a.idx, verr == nil)
			info.Logf("agg%d <- %s idx=%d len=%d: VerifyPartial ok=%v", ag, a.kind, a.idx, len(a.sig), verr == nil)
			if (verr == nil) != a.valid {
				if a.valid {
					return viol("verify-partial", "tbls/valid-partial-rejected/"+c.name, "VerifyPartial rejected the honest partial of index %d: %v", a.idx, verr)
				}
				return viol("verify-partial", "tbls/invalid-partial-accepted/"+c.name+"/"+baseKind(a.kind), "VerifyPartial accepted a partial of kind %s (index %d)", a.kind, a.idx)
			}
			sigs = append(sigs, a.sig)
			if a.valid {
				validIdx[a.idx] = true
			}
			if len(sigs) < th {
				continue
			}
			var rec []byte
			var rerr error
			if pn := core.Guard(func() { rec, rerr = ts.Recover(pub, rx(msg), sigs, uint32(th), uint32(n)) }); pn != nil {
				return viol("totality", "tbls/recover-panic/"+c.name, "Recover panicked with %d entries: %v | %s", len(sigs), pn, core.LastStack())
			}
			if len(validIdx) >= th {
				if rerr != nil {
					return viol("recover", "tbls/recover-refused-with-t-valid/"+c.name, "slice of %d entries holds %d distinct valid partials (t=%d) but Recover failed: %v", len(sigs), len(validIdx), th, rerr)
				}
				if !bytes.Equal(rec, want) {
					return viol("recover", "tbls/recovered-differs-from-unique/"+c.name, "recovered signature differs from the signature of the group secret")
				}
				if t.Bool("sched.again", 300) {
					// an aggregator that restarts recomputes from the partials it stored: the same slice gives
					// the same signature again, and the stored partials are what they were
					before := make([][]byte, len(sigs))
					for i := range sigs {
						before[i] = kit.CopyBytes(sigs[i])
					}
					rec2, err2 := ts.Recover(pub, rx(msg), sigs, uint32(th), uint32(n))
					info.Fault("aggregator-recomputes")
					if err2 != nil || !bytes.Equal(rec2, rec) {
						return viol("recover", "tbls/recover-not-repeatable/"+c.name, "Recover over the same stored partials: first %x, then %x (err=%v)", head8(rec), head8(rec2), err2)
					}
					for i := range sigs {
						if !bytes.Equal(sigs[i], before[i]) {
							return viol("recover", "tbls/recover-changed-its-input/"+c.name, "Recover altered the stored partial %d", i)
						}
					}
				}
				if err := ts.VerifyRecovered(pub.Commit(), rx(msg), rec); err != nil {
					return viol("recover", "tbls/recovered-does-not-verify/"+c.name, "VerifyRecovered: %v", err)
				}
				if ts.VerifyRecovered(pub.Commit(), rx(other), rec) == nil {
					return viol("recover", "tbls/recovered-verifies-other-message/"+c.name, "recovered signature verifies for another message")
				}
				if last == nil {
					info.Logf("agg%d recovers %x", ag, rec)
				}
				last = rec
				info.Probe("tbls-recovered")
			} else if rerr == nil {
				return viol("recover", "tbls/recovered-from-fewer-than-t/"+c.name, "Recover returned a signature from %d distinct valid partials, t=%d", len(validIdx), th)
			} else {
				info.Probe("tbls-refused-fewer-than-t")
			}
		}
		if last != nil {
			recovered = append(recovered, last)
		}
		if honestClass && last == nil {
			return viol("recover", "tbls/honest-session-no-signature/"+c.name, "fault-free session: aggregator %d never recovered a signature", ag)
		}
	}
	for _, r := range recovered {
		if !bytes.Equal(r, recovered[0]) {
			return viol("recover", "tbls/aggregators-disagree/"+c.name, "two aggregators recovered different signatures")
		}
	}
	_ = sigG
	return nil
}

// rx models a receive buffer that is reused for every delivery: the message is copied into the same
// backing array each time, so consecutive verifications see the same slice header with new content.
var rxbuf [512]byte

func rx(m []byte) []byte {
	b := rxbuf[:len(m):len(m)]
	copy(b, m)
	return b
}

func baseKind(k string) string {
	for i := 0; i < len(k); i++ {
		if k[i] == '+' {
			return k[:i] + "+corrupted"
		}
	}
	return k
}

// ------------------------------------------------------------------ BDN

func runBDN(t *core.Tape, tier string, info *core.RunInfo) *core.Violation {
	c := combos[t.Intn("cfg", len(combos))]
	suite := c.suite()
	keyG, _ := groups(c, suite)
	var sc *bdn.Scheme
	if c.onG1 {
		sc = bdn.NewSchemeOnG1(suite)
	} else {
		sc = bdn.NewSchemeOnG2(suite)
	}
	// up to 10 signers in both tiers: the byte boundary of the mask (8 signers fill the last byte
	// exactly, 9 open a second one) is where masks go wrong (seed C09d: Merge dropped the whole last
	// byte for rosters that are a multiple of 8; the quick tier stopped at 7)
	n := t.Range("cfg", 1, 10)
	if t.Bool("cfg.boundary", 200) {
		n = 8 + t.Intn("cfg.boundary", 2)
	}
	msg := kit.DrawMsg(t, "cfg", 40)
	info.Config["session"], info.Config["suite"], info.Config["n"] = "bdn", c.name, n
	privs := make([]kyber.Scalar, n)
	pubs := make([]kyber.Point, n)
	for i := range privs {
		privs[i] = keyG.Scalar().SetBytes(core.ExpandBytes(t.Draw("keys", 1<<62)+core.SplitMix(t.NextCounter()), 48))
		pubs[i] = keyG.Point().Mul(privs[i], nil)
	}
	// participants: at least one
	part := make([]bool, n)
	cnt := 0
	for i := range part {
		part[i] = t.Bool("cfg.part", 600)
		if part[i] {
			cnt++
		}
	}
	if cnt == 0 {
		part[t.Intn("cfg.part", n)] = true
	}
	var sigs [][]byte
	var first int = -1
	for i := range part {
		if part[i] {
			s, err := sc.Sign(privs[i], msg)
			if err != nil {
				return viol("setup", "bdn/sign/"+c.name, "Sign: %v", err)
			}
			sigs = append(sigs, s)
			if first < 0 {
				first = i
			}
		}
	}
	setBits := func(m *bdn.Mask) error {
		for i := range part {
			if err := m.SetBit(i, part[i]); err != nil {
				return err
			}
		}
		return nil
	}
	want := make([]byte, (n+7)/8)
	for i := range part {
		if part[i] {
			want[i/8] |= 1 << (i % 8)
		}
	}
	route := t.Intn("cfg.route", 6)
	routes := []string{"new+setbit", "new-with-own-key+setbit", "new+setmask", "clone-of-base+setbit", "merge-of-subaggregates", "clone-then-mutate-original"}
	info.Config["route"] = routes[route]
	if route != 0 {
		info.NonTrivial = true
		info.ByzFired("mask-route:" + routes[route]) // not Byzantine, but a construction route worth counting
	}
	var mask *bdn.Mask
	var err error
	build := func() *core.Violation {
		switch route {
		case 0:
			if mask, err = bdn.NewMask(keyG, pubs, nil); err == nil {
				err = setBits(mask)
			}
		case 1:
			// the own key may be ANY participant's (seed C09i: an own key at roster index 8 or higher
			// came back with its bit off); the fresh mask must show exactly that signer
			own := first
			var ps []int
			for i := range part {
				if part[i] {
					ps = append(ps, i)
				}
			}
			own = ps[t.Intn("cfg.own", len(ps))]
			if mask, err = bdn.NewMask(keyG, pubs, pubs[own]); err == nil {
				wantOwn := make([]byte, (n+7)/8)
				wantOwn[own/8] |= 1 << (own % 8)
				if !bytes.Equal(mask.Mask(), wantOwn) || mask.CountEnabled() != 1 {
					return viol("mask", "bdn/own-key-mask-wrong/"+c.name, "NewMask with the key of signer %d (of %d): mask %x, %d enabled", own, n, mask.Mask(), mask.CountEnabled())
				}
				err = setBits(mask)
			}
		case 2:
			if mask, err = bdn.NewMask(keyG, pubs, nil); err == nil {
				buf := kit.CopyBytes(want)
				err = mask.SetMask(buf)
				// observation only: bdn.Mask.SetMask keeps the caller's slice (cosi.Mask.SetMask copies);
				// C09 does not speak about buffer reuse, so this is counted, not asserted
				if err == nil && len(buf) > 0 {
					buf[0] ^= 0xff
					if !bytes.Equal(mask.Mask(), want) {
						info.Probe("bdn-setmask-aliases-caller-buffer")
					}
					buf[0] ^= 0xff
				}
			}
		case 3:
			var base *bdn.Mask
			if base, err = bdn.NewMask(keyG, pubs, nil); err == nil {
				mask = base.Clone()
				err = setBits(mask)
				if base.CountEnabled() != 0 {
					return viol("mask", "bdn/clone-mutation-leaked-into-original/"+c.name, "setting bits on a clone changed the original mask")
				}
			}
		case 4:
			// two sub-aggregators each know half of the participants; the parent merges
			var a, b *bdn.Mask
			a, err = bdn.NewMask(keyG, pubs, nil)
			if err != nil {
				break
			}
			b = a.Clone()
			for i := range part {
				if part[i] {
					if i%2 == 0 {
						_ = a.SetBit(i, true)
					} else {
						_ = b.SetBit(i, true)
					}
				}
			}
			mask = a.Clone()
			err = mask.Merge(b.Mask())
		case 5:
			var base *bdn.Mask
			if base, err = bdn.NewMask(keyG, pubs, nil); err == nil {
				if err = setBits(base); err == nil {
					mask = base.Clone()
					for i := range part {
						_ = base.SetBit(i, !part[i]) // mutate the original afterwards
					}
				}
			}
		}
		return nil
	}
	if pn := core.Guard(func() {
		if v := build(); v != nil {
			panic(v)
		}
	}); pn != nil {
		if v, ok := pn.(*core.Violation); ok {
			return v
		}
		return viol("totality", "bdn/mask-construction-panic/"+c.name+"/"+routes[route], "building the mask (%s) panicked: %v | %s", routes[route], pn, core.LastStack())
	}
	if err != nil {
		return viol("mask", "bdn/mask-construction-error/"+c.name+"/"+routes[route], "building the mask (%s): %v", routes[route], err)
	}
	if !bytes.Equal(mask.Mask(), want) {
		return viol("mask", "bdn/mask-bits-wrong/"+c.name+"/"+routes[route], "mask bits %x, want %x (route %s)", mask.Mask(), want, routes[route])
	}
	info.Events++
	var aggSig, aggPub kyber.Point
	if pn := core.Guard(func() {
		aggSig, err = sc.AggregateSignatures(sigs, mask)
		if err == nil {
			aggPub, err = sc.AggregatePublicKeys(mask)
		}
	}); pn != nil {
		return viol("totality", "bdn/aggregate-panic/"+c.name+"/"+routes[route], "aggregating with a mask built by route %s panicked: %v | %s", routes[route], pn, core.LastStack())
	}
	if err != nil {
		return viol("aggregate", "bdn/aggregate-error/"+c.name+"/"+routes[route], "aggregating (route %s): %v", routes[route], err)
	}
	sb, _ := aggSig.MarshalBinary()
	if err := sc.Verify(aggPub, rx(msg), sb); err != nil {
		return viol("aggregate", "bdn/aggregate-does-not-verify/"+c.name+"/"+routes[route], "aggregate over mask %x does not verify under the aggregate key of that mask (route %s): %v", want, routes[route], err)
	}
	info.SigAdd("bdn:%s:%x", routes[route], want)
	kb, _ := aggPub.MarshalBinary()
	info.Logf("bdn n=%d mask=%x route=%s verifies: key#%x sig#%x", n, want, routes[route], sha256.Sum256(kb), sha256.Sum256(sb))
	// reference mask by the plain route: equal bits => equal aggregate key
	ref, _ := bdn.NewMask(keyG, pubs, nil)
	_ = setBits(ref)
	refPub, err := sc.AggregatePublicKeys(ref)
	if err != nil || !refPub.Equal(aggPub) {
		return viol("mask", "bdn/equal-bits-different-key/"+c.name+"/"+routes[route], "two masks with equal bits give different aggregate keys (route %s) err=%v", routes[route], err)
	}
	// a base mask is meant to be cloned and reused (NewMask's documentation): a series of aggregations over
	// clones of ONE base, with changing participant sets, must each give the key of a freshly built mask
	if n >= 2 {
		base, _ := bdn.NewMask(keyG, pubs, nil)
		rounds := 2 + t.Intn("cfg.reuse", 3)
		for r := 0; r < rounds; r++ {
			cm := base.Clone()
			fresh, _ := bdn.NewMask(keyG, pubs, nil)
			any := false
			var rs [][]byte
			for i := 0; i < n; i++ {
				on := t.Bool("cfg.reuse", 500)
				if r == 0 {
					on = true // the first aggregation enables everybody, later ones drop prefixes
				}
				if on {
					any = true
					_ = cm.SetBit(i, true)
					_ = fresh.SetBit(i, true)
					sg, _ := sc.Sign(privs[i], msg)
					rs = append(rs, sg)
				}
			}
			if !any {
				continue
			}
			kc, err1 := sc.AggregatePublicKeys(cm)
			kf, err2 := sc.AggregatePublicKeys(fresh)
			if err1 != nil || err2 != nil {
				return viol("aggregate", "bdn/aggregate-error/"+c.name+"/reuse", "%v %v", err1, err2)
			}
			if !kc.Equal(kf) {
				return viol("mask", "bdn/reused-base-mask-gives-other-key/"+c.name, "aggregation %d over a clone of a reused base mask (bits %x) gives another key than a freshly built mask with the same bits", r, cm.Mask())
			}
			as, err := sc.AggregateSignatures(rs, cm)
			if err != nil {
				return viol("aggregate", "bdn/aggregate-error/"+c.name+"/reuse", "%v", err)
			}
			ab, _ := as.MarshalBinary()
			if err := sc.Verify(kc, rx(msg), ab); err != nil {
				return viol("aggregate", "bdn/aggregate-does-not-verify/"+c.name+"/reused-base", "aggregation %d over a clone of a reused base mask (bits %x) does not verify: %v", r, cm.Mask(), err)
			}
			info.Events++
		}
		info.Faults["base-mask-reused"]++
	}
	// under no other mask or message
	other := kit.CopyBytes(msg)
	other[0] ^= 1
	if sc.Verify(aggPub, rx(other), sb) == nil {
		return viol("aggregate", "bdn/verifies-other-message/"+c.name, "aggregate verifies for another message")
	}
	if n > 1 {
		flip := t.Intn("oracle.flip", n)
		om := ref.Clone()
		_ = om.SetBit(flip, !part[flip])
		if om.CountEnabled() > 0 {
			op, err := sc.AggregatePublicKeys(om)
			if err == nil && sc.Verify(op, rx(msg), sb) == nil {
				return viol("aggregate", "bdn/verifies-under-other-mask/"+c.name, "aggregate for mask %x verifies under the key of mask %x", want, om.Mask())
			}
			info.Probe("bdn-other-mask-rejected")
		}
	}
	// signatures not in index order
	if len(sigs) >= 2 && t.Bool("oracle.swap", 500) {
		i := t.Intn("oracle.swap", len(sigs)-1)
		sw := append([][]byte{}, sigs...)
		sw[i], sw[i+1] = sw[i+1], sw[i]
		if ag2, err := sc.AggregateSignatures(sw, ref); err == nil {
			b2, _ := ag2.MarshalBinary()
			if sc.Verify(refPub, rx(msg), b2) == nil && !bytes.Equal(sigs[i], sigs[i+1]) {
				return viol("aggregate", "bdn/swapped-signatures-verify/"+c.name, "aggregate built from signatures out of index order verifies")
			}
		}
		info.Fault("signatures-out-of-order")
	}
	// wrong number of signatures is refused
	if _, err := sc.AggregateSignatures(append(append([][]byte{}, sigs...), sigs[0]), ref); err == nil {
		return viol("aggregate", "bdn/surplus-signature-accepted/"+c.name, "AggregateSignatures accepted more signatures than enabled bits")
	}
	info.Fault("duplicate-signature-offered")
	return nil
}

func head8(b []byte) []byte {
	if len(b) > 8 {
		return b[:8]
	}
	return b
}
