package signsim

import (
	"bytes"
	"go.dedis.ch/kyber/v4"
	"go.dedis.ch/kyber/v4/sign/cosi"

	"verif/sim/core"
	"verif/sim/kit"
)

// CoSi session: a leader and n signers over two network rounds. kyber ships
// only the cryptographic steps; the leader logic here is a stub.
func runCoSi(t *core.Tape, tier string, info *core.RunInfo) *core.Violation {
	g := kit.Ed()
	n := t.Range("cfg", 1, 10)
	honestClass := t.Bool("cfg.class", 150)
	msg := kit.DrawMsg(t, "cfg", 40)
	privs, pubs := kit.KeyPairs(g, t, "keys", n)
	info.Config["session"], info.Config["n"] = "cosi", n

	// ---- mask arithmetic under arbitrary SetBit/SetMask sequences ----
	m, err := cosi.NewMask(g, pubs, nil)
	if err != nil {
		return viol("mask", "cosi/newmask", "NewMask: %v", err)
	}
	bits := make([]bool, n)
	ops := t.Intn("cfg.maskops", 12)
	for k := 0; k < ops; k++ {
		if t.Bool("cfg.maskops", 600) {
			i := t.Intn("cfg.maskops", n)
			en := t.Bool("cfg.maskops", 500)
			if err := m.SetBit(i, en); err != nil {
				return viol("mask", "cosi/setbit-error", "SetBit(%d): %v", i, err)
			}
			bits[i] = en
		} else {
			b := make([]byte, m.Len())
			for i := 0; i < n; i++ {
				if t.Bool("cfg.maskops", 500) {
					b[i/8] |= 1 << (i % 8)
					bits[i] = true
				} else {
					bits[i] = false
				}
			}
			if err := m.SetMask(b); err != nil {
				return viol("mask", "cosi/setmask-error", "SetMask: %v", err)
			}
			if t.Bool("cfg.rxreuse", 400) {
				// the caller's buffer is a receive buffer that the next packet overwrites. Whatever the
				// mask object does with the slice it was given, it must stay consistent in itself: the
				// aggregate key is the sum of the keys that its own bits enable (seed C09k: SetMask kept
				// the caller's slice next to an aggregate computed from the old contents)
				copy(b, t.Bytes("cfg.rxreuse", len(b)))
				info.Faults["buffer-reused-after-setmask"]++
				now := m.Mask()
				for i := 0; i < n; i++ {
					on := now[i/8]&(1<<(i%8)) != 0
					if on != bits[i] {
						info.Probe("cosi-setmask-aliases-caller-buffer")
					}
					bits[i] = on
				}
			}
		}
		sum := g.Point().Null()
		cnt := 0
		for i, on := range bits {
			if on {
				sum = g.Point().Add(sum, pubs[i])
				cnt++
			}
		}
		if !m.AggregatePublic.Equal(sum) {
			return viol("mask", "cosi/aggregate-public-drift", "after %d mask operations AggregatePublic is not the sum of the keys that the mask bits %x enable (model %v)", k+1, m.Mask(), bits)
		}
		if m.CountEnabled() != cnt {
			return viol("mask", "cosi/count-enabled", "CountEnabled=%d, want %d", m.CountEnabled(), cnt)
		}
	}
	info.Events += ops

	// ---- signing session ----
	type signer struct {
		alive1, alive2 bool
		v              kyber.Scalar
		V              kyber.Point
		byz            string
	}
	ss := make([]*signer, n)
	for i := range ss {
		ss[i] = &signer{alive1: true, alive2: true}
		if !honestClass && i > 0 {
			switch t.Pick("cfg.signer", []int{10, 2, 2, 1, 1}) {
			case 1:
				ss[i].alive1 = false // absent from the start
				info.Fault("signer-absent-round1")
			case 2:
				ss[i].alive2 = false // crashes between the rounds
				info.Fault("signer-crash-between-rounds")
			case 3:
				ss[i].byz = "response-for-other-challenge"
			case 4:
				ss[i].byz = "response-corrupted-in-flight"
			}
		}
	}
	dup := !honestClass && t.Bool("cfg", 400)
	// round 1: commitments (possibly duplicated on the wire; the leader keeps one per signer)
	var Vs []kyber.Point
	var masks [][]byte
	var who []int
	for i, s := range ss {
		if !s.alive1 {
			continue
		}
		s.v, s.V = cosi.Commit(g)
		mi, err := cosi.NewMask(g, pubs, pubs[i])
		if err != nil {
			return viol("mask", "cosi/newmask-own-key", "NewMask with own key: %v", err)
		}
		if !mi.AggregatePublic.Equal(pubs[i]) {
			return viol("mask", "cosi/own-key-mask-aggregate", "mask created with an own key does not aggregate to that key")
		}
		Vs = append(Vs, kit.CopyPoint(g, s.V))
		masks = append(masks, mi.Mask())
		who = append(who, i)
		if dup && t.Bool("net.dup", 300) {
			info.Fault("duplicate-commitment")
		}
	}
	attempt := 0
	for {
		attempt++
		V, Z, err := cosi.AggregateCommitments(g, Vs, masks)
		if err != nil {
			return viol("cosi", "cosi/aggregate-commitments", "AggregateCommitments: %v", err)
		}
		if t.Bool("cfg.recompute", 300) {
			// the leader crashes after aggregating and, restarted, recomputes the aggregate from the
			// commitments and masks it had stored (its durable state): same inputs, same aggregate
			// (seed C09g: the first aggregation had overwritten the stored first commitment)
			V2, Z2, err := cosi.AggregateCommitments(g, Vs, masks)
			if err != nil {
				return viol("cosi", "cosi/aggregate-commitments", "AggregateCommitments (recomputed): %v", err)
			}
			info.Fault("leader-crash-recomputes-aggregate")
			if !V2.Equal(V) || !bytes.Equal(Z2, Z) {
				return viol("cosi", "cosi/aggregate-not-repeatable", "AggregateCommitments over the same stored commitments gives a different aggregate the second time (%d commitments)", len(Vs))
			}
			V, Z = V2, Z2
		}
		lm, _ := cosi.NewMask(g, pubs, nil)
		if err := lm.SetMask(Z); err != nil {
			return viol("cosi", "cosi/leader-setmask", "SetMask(aggregate mask): %v", err)
		}
		c, err := cosi.Challenge(g, V, lm.AggregatePublic, msg)
		if err != nil {
			return viol("cosi", "cosi/challenge", "Challenge: %v", err)
		}
		// round 2
		var rs []kyber.Scalar
		var missing []int
		tainted := false
		for _, i := range who {
			s := ss[i]
			if !s.alive2 {
				missing = append(missing, i)
				continue
			}
			ci := c
			if s.byz == "response-for-other-challenge" {
				ci, _ = cosi.Challenge(g, V, lm.AggregatePublic, append(kit.CopyBytes(msg), 9))
				tainted = true
				info.ByzFired(s.byz)
			}
			r, err := cosi.Response(g, privs[i], s.v, ci)
			if err != nil {
				return viol("cosi", "cosi/response", "Response: %v", err)
			}
			r = kit.CopyScalar(g, r)
			if s.byz == "response-corrupted-in-flight" {
				r = g.Scalar().Add(r, g.Scalar().One())
				tainted = true
				info.ByzFired(s.byz)
			}
			rs = append(rs, r)
		}
		info.Events += len(who)
		info.SigAdd("cosi:%d:%v:%v", attempt, who, missing)
		info.Logf("cosi attempt %d participants=%v missing=%v tainted=%v", attempt, who, missing, tainted)
		if len(missing) > 0 {
			// the leader restarts the round with the smaller mask
			var nV []kyber.Point
			var nm [][]byte
			var nw []int
			for k, i := range who {
				if ss[i].alive2 {
					// fresh commitments for the new round
					ss[i].v, ss[i].V = cosi.Commit(g)
					nV = append(nV, kit.CopyPoint(g, ss[i].V))
					nm = append(nm, masks[k])
					nw = append(nw, i)
				}
			}
			Vs, masks, who = nV, nm, nw
			info.Fault("leader-restarts-round")
			continue
		}
		r, err := cosi.AggregateResponses(g, rs)
		if err != nil {
			return viol("cosi", "cosi/aggregate-responses", "AggregateResponses: %v", err)
		}
		sig, err := cosi.Sign(g, V, r, lm)
		if err != nil {
			return viol("cosi", "cosi/sign", "Sign: %v", err)
		}
		enabled := len(who)
		policies := []struct {
			name string
			p    cosi.Policy
			ok   bool
		}{
			{"complete", cosi.CompletePolicy{}, enabled == n},
			{"nil", nil, enabled == n},
			{"threshold", nil, false},
		}
		for pi := range policies {
			p := &policies[pi]
			if p.name == "threshold" {
				k := 1 + t.Intn("oracle.k", n)
				p.p = cosi.NewThresholdPolicy(k)
				p.ok = enabled >= k
			}
			var verr error
			if pn := core.Guard(func() { verr = cosi.Verify(g, pubs, msg, sig, p.p) }); pn != nil {
				return viol("totality", "cosi/verify-panic", "cosi.Verify panicked: %v | %s", pn, core.LastStack())
			}
			wantOK := p.ok && !tainted
			if (verr == nil) != wantOK {
				if verr == nil {
					return viol("cosi", "cosi/verify-accepts/"+p.name, "Verify accepted: participants=%v of %d, policy %s, tainted=%v", who, n, p.name, tainted)
				}
				return viol("cosi", "cosi/verify-rejects/"+p.name, "Verify rejected an honest collective signature (participants=%v of %d, policy %s): %v", who, n, p.name, verr)
			}
		}
		// wrong mask / message
		if !tainted && enabled >= 1 {
			if cosi.Verify(g, pubs, append(kit.CopyBytes(msg), 3), sig, cosi.NewThresholdPolicy(1)) == nil {
				return viol("cosi", "cosi/verifies-other-message", "collective signature verifies for another message")
			}
			if n > 1 {
				bad := kit.CopyBytes(sig)
				k := t.Intn("oracle.flip", n)
				bad[len(bad)-lm.Len()+k/8] ^= 1 << (k % 8)
				if cosi.Verify(g, pubs, msg, bad, cosi.NewThresholdPolicy(0)) == nil {
					return viol("cosi", "cosi/verifies-under-other-mask", "collective signature verifies with participant bit %d flipped", k)
				}
			}
			// padding bits of the last mask byte are not participants: a signature whose mask
			// has them set must be judged by its real participation (added after seed C09c:
			// CountEnabled counted the padding bits and ThresholdPolicy/CompletePolicy accepted
			// 2 of 5 signers)
			if n%8 != 0 && t.Bool("byz.padding", 600) {
				pad := kit.CopyBytes(sig)
				last := len(pad) - 1
				bitsSet := 0
				for k := n % 8; k < 8; k++ {
					if t.Bool("byz.padding", 600) {
						pad[last] |= 1 << k
						bitsSet++
					}
				}
				if bitsSet == 0 {
					pad[last] |= 0x80
				}
				info.ByzFired("mask-padding-bits")
				for k := 0; k <= n; k++ {
					var verr error
					if pn := core.Guard(func() { verr = cosi.Verify(g, pubs, msg, pad, cosi.NewThresholdPolicy(k)) }); pn != nil {
						return viol("totality", "cosi/verify-panic", "cosi.Verify panicked on a mask with padding bits: %v | %s", pn, core.LastStack())
					}
					if verr == nil && enabled < k {
						return viol("cosi", "cosi/verify-accepts/padding-bits-counted", "mask byte %02x (n=%d): Verify accepted under threshold %d with %d real participants", pad[last], n, k, enabled)
					}
				}
				var verr error
				if pn := core.Guard(func() { verr = cosi.Verify(g, pubs, msg, pad, cosi.CompletePolicy{}) }); pn != nil {
					return viol("totality", "cosi/verify-panic", "cosi.Verify panicked on a mask with padding bits: %v | %s", pn, core.LastStack())
				}
				if verr == nil && enabled < n {
					return viol("cosi", "cosi/verify-accepts/padding-bits-counted", "mask byte %02x (n=%d): Verify accepted under the complete policy with %d real participants", pad[last], n, enabled)
				}
			}
			info.Probe("cosi-signature-verified")
		}
		return nil
	}
}
