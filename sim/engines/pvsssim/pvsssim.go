// Package pvsssim decides C13: a PVSS dealing as a multi-party session — a
// dealer posts encrypted shares and commitments on a public board, trustees
// read, verify, decrypt and post, combiners assemble what they see (arrival
// order, duplicates, gaps) and recover — with Byzantine dealer and trustees and
// corruption in transit; plus DLEQ proofs travelling over the same board.
package pvsssim

import (
	"crypto/sha256"
	"fmt"
	"os"

	"go.dedis.ch/kyber/v4"
	"go.dedis.ch/kyber/v4/proof/dleq"
	"go.dedis.ch/kyber/v4/share"
	"go.dedis.ch/kyber/v4/share/pvss"

	"verif/sim/core"
	"verif/sim/kit"
)

type Engine struct{}

func init() {
	core.Register(Engine{})
	core.RegisterCheck(core.CheckSpec{Property: "C13", Engines: []string{"pvsssim"}, Level: "exploration"})
}

func (Engine) Name() string { return "pvsssim" }
func (Engine) Runs(prop, tier string) int {
	if tier == "thorough" {
		return 400000
	}
	return 9000
}
func (Engine) Real() []string {
	return []string{"share/pvss (EncShares, VerifyEncShare(Batch), DecShare, VerifyDecShare(Batch), RecoverSecret)", "proof/dleq", "share/poly.go", "group/edwards25519, group/p256"}
}
func (Engine) Stubs() []string {
	return []string{"public board (prefix-closed, reordered, duplicated, lossy views)", "trustee driver (verify batch, decrypt own share, post)", "combiner driver (assemble parallel slices from its view, recover when >= t entries)", "Byzantine dealer and trustee scripts, in-transit corruption"}
}
func (Engine) Rule() string {
	return "one run = one PVSS dealing (Ed25519 or P-256, n in 2..10, t in 1..n) with tape-drawn Byzantine dealer/trustee behaviours, in-transit alterations and combiner views; signature = hash of the combiner's slice composition and verdicts; non-trivial = a fault or Byzantine behaviour fired or the view is not the identity order"
}

func viol(oracle, class, format string, a ...any) *core.Violation {
	return &core.Violation{Property: "C13", Engine: "pvsssim", Oracle: oracle, Class: "C13/" + class, Detail: fmt.Sprintf(format, a...)}
}

type item struct {
	X        kyber.Point
	enc      *pvss.PubVerShare
	dec      *pvss.PubVerShare
	who      int
	orig     bool   // untouched original triple of trustee `who`
	kind     string // what was done to it
	decOwner int    // whose honest decrypted share `dec` really is (-1: nobody's)
}

func cpShare(g kyber.Group, s *pvss.PubVerShare) *pvss.PubVerShare {
	return &pvss.PubVerShare{
		S: share.PubShare{I: s.S.I, V: kit.CopyPoint(g, s.S.V)},
		P: dleq.Proof{C: kit.CopyScalar(g, s.P.C), R: kit.CopyScalar(g, s.P.R), VG: kit.CopyPoint(g, s.P.VG), VH: kit.CopyPoint(g, s.P.VH)},
	}
}

func randScalar(g kyber.Group, t *core.Tape, label string) kyber.Scalar {
	s := g.Scalar().SetBytes(core.ExpandBytes(t.Draw(label, 1<<62)+core.SplitMix(t.NextCounter()), 48))
	if s.Equal(g.Scalar().Zero()) {
		s = g.Scalar().One()
	}
	return s
}

func (Engine) RunOne(t *core.Tape, prop, tier string, info *core.RunInfo) *core.Violation {
	var suite pvss.Suite = kit.Ed()
	gname := "ed25519"
	if alt := altSuite(); t.Bool("cfg.group", 300) && alt != nil && os.Getenv("VERIF_ED_ONLY") == "" {
		suite, gname = alt, "p256"
	}
	g := kyber.Group(suite)
	n := t.Range("cfg", 2, 10)
	th := t.Range("cfg", 1, n)
	honestClass := t.Bool("cfg.class", 130)
	info.Config["group"], info.Config["n"], info.Config["t"] = gname, n, th
	G := g.Point().Base()
	H := g.Point().Mul(randScalar(g, t, "keys"), nil)
	xs := make([]kyber.Scalar, n)
	X := make([]kyber.Point, n)
	for i := range xs {
		xs[i] = randScalar(g, t, "keys")
		X[i] = g.Point().Mul(xs[i], nil)
	}
	secret := randScalar(g, t, "keys")
	if t.Bool("cfg", 50) {
		secret = g.Scalar().Zero()
	}
	want := g.Point().Mul(secret, nil)

	encs, pubPoly, err := pvss.EncShares(suite, H, X, secret, uint32(th))
	if err != nil {
		return viol("setup", "encshares-error/"+gname, "EncShares: %v", err)
	}
	// an earlier dealing of the same dealer to the same trustees (for stale-share replays)
	var oldEncs []*pvss.PubVerShare
	var oldPoly *share.PubPoly
	sH := make([]kyber.Point, n)
	for i := range sH {
		sH[i] = pubPoly.Eval(uint32(i)).V
	}

	// ---- Byzantine dealer / corruption of the posted dealing ----
	posted := make([]*pvss.PubVerShare, n)
	for i := range encs {
		posted[i] = cpShare(g, encs[i])
	}
	encTouched := make([]bool, n)
	commitTouched := false
	if !honestClass && t.Bool("byz.dealer", 400) {
		k := t.Intn("byz.dealer", 10)
		i := t.Intn("byz.dealer", n)
		switch k {
		case 8:
			// two fields changed so that their sum is preserved: VG+D, VH-D (C13: "fails when any of
			// its components ... are changed"; added after seed C13c, whose verifier only compared sums)
			D := g.Point().Mul(randScalar(g, t, "byz.val"), nil)
			posted[i].P.VG = g.Point().Add(posted[i].P.VG, D)
			posted[i].P.VH = g.Point().Sub(posted[i].P.VH, D)
			encTouched[i] = true
			info.ByzFired("dealer:proof-commitments-compensating-pair")
		case 9:
			// a dealer that builds trustee i's proof for the SUMMED relation: the encrypted share is
			// p(i)*X_i + d*(H+X_i), the commitments w*H and w*X_i, the response w - c*(p(i)+d) under the
			// regular global challenge. Only a verifier that checks both equations refuses it.
			stream := suite.XOF(t.Bytes("byz.val", 32))
			pri := share.NewPriPoly(suite, uint32(th), secret, stream)
			ps := pri.Shares(uint32(n))
			pp := pri.Commit(H)
			d := randScalar(g, t, "byz.val")
			xG, xH, vG, vH := make([]kyber.Point, n), make([]kyber.Point, n), make([]kyber.Point, n), make([]kyber.Point, n)
			vs := make([]kyber.Scalar, n)
			for k := 0; k < n; k++ {
				xG[k] = g.Point().Mul(ps[k].V, H)
				xH[k] = g.Point().Mul(ps[k].V, X[k])
				vs[k] = g.Scalar().Pick(stream)
				vG[k] = g.Point().Mul(vs[k], H)
				vH[k] = g.Point().Mul(vs[k], X[k])
			}
			xH[i] = g.Point().Add(xH[i], g.Point().Mul(d, g.Point().Add(H, X[i])))
			hs := suite.Hash()
			for _, l := range [][]kyber.Point{xG, xH, vG, vH} {
				for _, p := range l {
					_, _ = p.MarshalTo(hs)
				}
			}
			c := g.Scalar().Pick(suite.XOF(hs.Sum(nil)))
			for k := 0; k < n; k++ {
				x := ps[k].V
				if k == i {
					x = g.Scalar().Add(x, d)
				}
				r := g.Scalar().Sub(vs[k], g.Scalar().Mul(x, c))
				posted[k] = &pvss.PubVerShare{S: share.PubShare{I: uint32(k), V: xH[k]}, P: dleq.Proof{C: c, R: r, VG: vG[k], VH: vH[k]}}
				sH[k] = xG[k]
			}
			pubPoly = pp
			encTouched[i] = true
			info.ByzFired("dealer:share-proved-for-the-summed-relation")
		case 0:
			posted[i].S.V = g.Point().Add(posted[i].S.V, G)
			encTouched[i] = true
			info.ByzFired("dealer:enc-share-altered")
		case 1:
			if n >= 2 {
				j := (i + 1 + t.Intn("byz.dealer", n-1)) % n
				if !posted[i].S.V.Equal(posted[j].S.V) { // swapping equal values (zero secret, t=1) alters nothing
					posted[i].S.V, posted[j].S.V = posted[j].S.V, posted[i].S.V
					encTouched[i], encTouched[j] = true, true
					info.ByzFired("dealer:enc-shares-swapped")
				}
			}
		case 2:
			posted[i].P.C = g.Scalar().Add(posted[i].P.C, g.Scalar().One())
			encTouched[i] = true
			info.ByzFired("dealer:proof-challenge-altered")
		case 3:
			posted[i].P.R = g.Scalar().Add(posted[i].P.R, g.Scalar().One())
			encTouched[i] = true
			info.ByzFired("dealer:proof-response-altered")
		case 4:
			posted[i].P.VG = g.Point().Add(posted[i].P.VG, G)
			encTouched[i] = true
			info.ByzFired("dealer:proof-vg-altered")
		case 5:
			posted[i].P.VH = g.Point().Add(posted[i].P.VH, G)
			encTouched[i] = true
			info.ByzFired("dealer:proof-vh-altered")
		case 6:
			_, cs := pubPoly.Info()
			cs = kit.CopyPoints(g, cs)
			c := t.Intn("byz.dealer", len(cs))
			cs[c] = g.Point().Add(cs[c], G)
			pubPoly = share.NewPubPoly(g, H, cs)
			commitTouched = true
			info.ByzFired("dealer:commitment-altered")
		case 7:
			oe, _, _ := pvss.EncShares(suite, H, X, randScalar(g, t, "keys"), uint32(th))
			posted[i].P.C = oe[i].P.C
			encTouched[i] = true
			info.ByzFired("dealer:challenge-of-other-dealing")
		}
	}
	anyEncTouched := commitTouched
	for _, b := range encTouched {
		anyEncTouched = anyEncTouched || b
	}
	// a dealer that posts, in the slot of trustee `to`, a SECOND COPY of the share of trustee `from`
	// (index from, encrypted under from's key, with a valid proof for that key), the collective
	// challenge computed over the list as posted. Trustee `to` cannot decrypt anything: the slot must
	// not be in the batch result, whichever way the verifier derives the commitments - by position
	// or from the index that each posted share carries (seed C13f: the batch verifier looked the key
	// up by the share's index and reported `to`'s key as served).
	dupTo, shByIndex := -1, false
	if !honestClass && !anyEncTouched && n >= 2 && t.Bool("byz.dealer2", 100) {
		from := t.Intn("byz.dealer2", n)
		to := (from + 1 + t.Intn("byz.dealer2", n-1)) % n
		shByIndex = t.Bool("byz.dealer2", 600)
		stream := suite.XOF(t.Bytes("byz.val", 32))
		pri := share.NewPriPoly(suite, uint32(th), secret, stream)
		ps := pri.Shares(uint32(n))
		pp := pri.Commit(H)
		xG, xH, vG, vH := make([]kyber.Point, n), make([]kyber.Point, n), make([]kyber.Point, n), make([]kyber.Point, n)
		vs := make([]kyber.Scalar, n)
		src := make([]int, n)
		for k := 0; k < n; k++ {
			src[k] = k
			if k == to {
				src[k] = from
			}
			xG[k] = g.Point().Mul(ps[k].V, H) // what the challenge covers: the commitments by position
			xH[k] = g.Point().Mul(ps[src[k]].V, X[src[k]])
			vs[k] = g.Scalar().Pick(stream)
			vG[k] = g.Point().Mul(vs[k], H)
			vH[k] = g.Point().Mul(vs[k], X[src[k]])
		}
		hs := suite.Hash()
		for _, l := range [][]kyber.Point{xG, xH, vG, vH} {
			for _, p := range l {
				_, _ = p.MarshalTo(hs)
			}
		}
		c := g.Scalar().Pick(suite.XOF(hs.Sum(nil)))
		for k := 0; k < n; k++ {
			r := g.Scalar().Sub(vs[k], g.Scalar().Mul(ps[src[k]].V, c))
			posted[k] = &pvss.PubVerShare{S: share.PubShare{I: uint32(src[k]), V: xH[k]}, P: dleq.Proof{C: c, R: r, VG: vG[k], VH: vH[k]}}
			sH[k] = xG[k]
		}
		pubPoly = pp
		dupTo = to
		anyEncTouched = true
		info.ByzFired("dealer:slot-holds-a-copy-of-another-trustees-share")
	}
	// the (possibly altered) commitments are what everybody evaluates
	sHp := make([]kyber.Point, n)
	postedIdx := make([]uint32, n)
	for i := range sHp {
		sHp[i] = pubPoly.Eval(uint32(i)).V
		if shByIndex && int(posted[i].S.I) < n {
			sHp[i] = pubPoly.Eval(posted[i].S.I).V
		}
		postedIdx[i] = posted[i].S.I
	}
	var K []kyber.Point
	var E []*pvss.PubVerShare
	Xdealer2 := append([]kyber.Point{}, X...) // another dealer's own copy of the trustee key list
	if pn := core.Guard(func() { K, E, err = pvss.VerifyEncShareBatch(suite, H, X, sHp, pubPoly, posted) }); pn != nil {
		return viol("totality", "verifyencbatch-panic/"+gname, "VerifyEncShareBatch panicked: %v | %s", pn, core.LastStack())
	}
	if err != nil {
		return viol("enc-verify", "verifyencbatch-error/"+gname, "VerifyEncShareBatch: %v", err)
	}
	info.Events++
	if !anyEncTouched {
		if len(E) != n || len(K) != n {
			return viol("enc-verify", "honest-enc-share-rejected/"+gname, "honest dealing: only %d of %d encrypted shares verify", len(E), n)
		}
	}
	for _, e := range E {
		i := int(e.S.I)
		if i < n && dupTo < 0 && (encTouched[i] || (commitTouched && !sHp[i].Equal(sH[i]))) {
			return viol("enc-verify", "altered-enc-share-accepted/"+gname, "encrypted share %d was altered (or its commitment was) but is in the batch result", i)
		}
	}
	if dupTo >= 0 {
		// the result pairs every accepted share with the key of the trustee who can decrypt it, and
		// no index occurs twice; the trustee of the slot with the copy has nothing to decrypt
		seen := map[uint32]bool{}
		for k, e := range E {
			if k < len(K) && int(e.S.I) < n && !K[k].Equal(X[e.S.I]) {
				return viol("enc-verify", "batch-result-pairs-share-with-another-key/"+gname, "the dealer put a copy of trustee %d's share into slot %d: the batch result reports the share with index %d as valid for another trustee's key (commitments derived by index: %v)", e.S.I, dupTo, e.S.I, shByIndex)
			}
			if seen[e.S.I] {
				return viol("enc-verify", "batch-result-holds-an-index-twice/"+gname, "the dealer put a copy of trustee %d's share into slot %d: the batch result holds index %d twice (commitments derived by index: %v)", e.S.I, dupTo, e.S.I, shByIndex)
			}
			seen[e.S.I] = true
		}
		if len(E) != n-1 || len(K) != n-1 {
			return viol("enc-verify", "batch-result-size/"+gname, "dealing with one slot holding a copy of another trustee's share: %d shares and %d keys in the batch result, want %d (commitments derived by index: %v)", len(E), len(K), n-1, shByIndex)
		}
		enc := cpShare(g, posted[dupTo])
		var derr error
		if pn := core.Guard(func() { _, derr = pvss.DecShare(suite, H, X[dupTo], sHp[dupTo], xs[dupTo], enc.P.C, enc) }); pn != nil {
			return viol("totality", "decshare-panic/"+gname, "DecShare panicked: %v | %s", pn, core.LastStack())
		}
		if derr == nil {
			return viol("enc-verify", "share-of-other-trustee-decrypted/"+gname, "trustee %d accepted and decrypted the copy of another trustee's share", dupTo)
		}
	}
	{
		h := sha256.New()
		for _, e := range posted {
			b, _ := e.S.V.MarshalBinary()
			h.Write(b)
			c, _ := e.P.C.MarshalBinary()
			h.Write(c)
		}
		wb, _ := want.MarshalBinary()
		info.Logf("dealing transcript: encshares#%x secret-commit %x", h.Sum(nil)[:8], wb)
	}
	info.SigAdd("enc:%d/%d", len(E), n)
	info.Logf("dealing n=%d t=%d: %d/%d encrypted shares verify (touched=%v commit=%v)", n, th, len(E), n, encTouched, commitTouched)
	if anyEncTouched {
		// a tampered dealing: the global challenge covers everything, nothing more to recover from it.
		// The trustees and their key list serve other dealers too: the next, honest, dealing over the
		// SAME key list must verify in full (added after seed C13b: the batch verifier filtered the
		// caller's key and share slices in place, which shifted every later trustee's key).
		encs2, pubPoly2, err := pvss.EncShares(suite, H, Xdealer2, randScalar(g, t, "keys2"), uint32(th))
		if err != nil {
			return viol("setup", "encshares-error/"+gname, "EncShares (second dealer): %v", err)
		}
		sH2 := make([]kyber.Point, n)
		for i := range sH2 {
			sH2[i] = pubPoly2.Eval(uint32(i)).V
		}
		var K2 []kyber.Point
		var E2 []*pvss.PubVerShare
		if pn := core.Guard(func() { K2, E2, err = pvss.VerifyEncShareBatch(suite, H, X, sH2, pubPoly2, encs2) }); pn != nil {
			return viol("totality", "verifyencbatch-panic/"+gname, "VerifyEncShareBatch (second dealer) panicked: %v | %s", pn, core.LastStack())
		}
		if err != nil || len(E2) != n || len(K2) != n {
			return viol("enc-verify", "honest-enc-share-rejected-after-bad-dealing/"+gname, "after a tampered dealing was checked, an honest dealing to the same trustees: only %d of %d encrypted shares verify (err=%v)", len(E2), n, err)
		}
		// and the posted shares of the first dealing are still the ones that were posted
		for i, e := range posted {
			if e.S.I != postedIdx[i] {
				return viol("enc-verify", "batch-verification-reordered-its-input/"+gname, "after VerifyEncShareBatch the caller's slot %d holds the share of trustee %d", i, e.S.I)
			}
		}
		info.Probe("second-dealing-after-tampered-one-verified")
		return nil
	}

	// ---- trustees ----
	items := make([]*item, 0, n)
	for i := 0; i < n; i++ {
		if !honestClass && t.Bool("byz.trustee", 120) {
			info.ByzFired("trustee:silent")
			continue
		}
		enc := cpShare(g, posted[i])
		var dec *pvss.PubVerShare
		if pn := core.Guard(func() { dec, err = pvss.DecShare(suite, H, X[i], sHp[i], xs[i], enc.P.C, enc) }); pn != nil {
			return viol("totality", "decshare-panic/"+gname, "DecShare panicked: %v | %s", pn, core.LastStack())
		}
		if err != nil {
			return viol("dec", "honest-decshare-error/"+gname, "trustee %d cannot decrypt an honest share: %v", i, err)
		}
		it := &item{X: X[i], enc: enc, dec: dec, who: i, orig: true, kind: "honest", decOwner: i}
		kf := t.Bool("cfg.kf", 150) || os.Getenv("VERIF_KF_ALWAYS") != ""
		if !honestClass && t.Bool("byz.trustee", 350) {
			it.orig = false
			it.decOwner = -1
			nk := 8
			if kf {
				nk = 9 // known finding C13-pvss-dec-share-forged-by-key-holder: its trigger is gated
			}
			switch t.Intn("byz.trustee", nk) {
			case 0:
				it.dec = cpShare(g, dec)
				it.dec.S.V = g.Point().Add(it.dec.S.V, G)
				it.kind = "dec-value-altered"
			case 1:
				it.dec = cpShare(g, dec)
				it.dec.S.I = uint32((i + 1 + t.Intn("byz.trustee", 3)) % (n + 2))
				if it.dec.S.I == uint32(i) {
					it.dec.S.I = uint32(n + 1)
				}
				it.kind = "dec-index-altered"
			case 2:
				it.dec = cpShare(g, dec)
				it.dec.P.C = g.Scalar().Add(it.dec.P.C, g.Scalar().One())
				it.kind = "dec-proof-challenge-altered"
			case 3:
				it.dec = cpShare(g, dec)
				it.dec.P.R = g.Scalar().Add(it.dec.P.R, g.Scalar().One())
				it.kind = "dec-proof-response-altered"
			case 4:
				it.dec = cpShare(g, dec)
				if t.Bool("byz.trustee", 500) {
					it.dec.P.VG = g.Point().Add(it.dec.P.VG, G)
				} else {
					it.dec.P.VH = g.Point().Add(it.dec.P.VH, G)
				}
				it.kind = "dec-proof-commitment-altered"
			case 5: // another trustee's decrypted share posted as its own
				if n >= 2 {
					j := (i + 1 + t.Intn("byz.trustee", n-1)) % n
					ej := cpShare(g, posted[j])
					dj, err := pvss.DecShare(suite, H, X[j], sHp[j], xs[j], ej.P.C, ej)
					if err == nil {
						it.dec = dj
						it.decOwner = j
						it.kind = "dec-share-of-other-trustee"
					} else {
						it.orig = true
					}
				} else {
					it.orig = true
				}
			case 6: // decrypted with a wrong key
				wx := randScalar(g, t, "byz.val")
				V := g.Point().Mul(g.Scalar().Inv(wx), enc.S.V)
				P, _, _, _ := dleq.NewDLEQProof(suite, G, V, wx)
				it.dec = &pvss.PubVerShare{S: share.PubShare{I: uint32(i), V: V}, P: *P}
				it.kind = "dec-with-wrong-key"
			case 7: // stale share from an earlier dealing
				if oldEncs == nil {
					oldEncs, oldPoly, _ = pvss.EncShares(suite, H, X, randScalar(g, t, "keys"), uint32(th))
				}
				oe := cpShare(g, oldEncs[i])
				od, err := pvss.DecShare(suite, H, X[i], oldPoly.Eval(uint32(i)).V, xs[i], oe.P.C, oe)
				if err == nil {
					it.dec = od
					it.kind = "dec-stale-from-earlier-dealing"
				} else {
					it.orig = true
				}
			case 8: // a wrong value with a proof forged by the key holder: pick VH freely, solve for V'
				v := randScalar(g, t, "byz.val")
				VG := g.Point().Mul(v, G)
				W := g.Point().Mul(randScalar(g, t, "byz.val"), nil)
				h := suite.Hash()
				_, _ = X[i].MarshalTo(h)
				_, _ = enc.S.V.MarshalTo(h)
				_, _ = VG.MarshalTo(h)
				_, _ = W.MarshalTo(h)
				c := g.Scalar().Pick(suite.XOF(h.Sum(nil)))
				r := g.Scalar().Sub(v, g.Scalar().Mul(xs[i], c))
				if !r.Equal(g.Scalar().Zero()) {
					// W = r*V' + c*encS  =>  V' = r^-1 (W - c*encS)
					Vp := g.Point().Mul(g.Scalar().Inv(r), g.Point().Sub(W, g.Point().Mul(c, enc.S.V)))
					it.dec = &pvss.PubVerShare{S: share.PubShare{I: uint32(i), V: Vp}, P: dleq.Proof{C: c, R: r, VG: VG, VH: W}}
					it.kind = "dec-forged-by-key-holder"
				} else {
					it.orig = true
				}
			}
			if !it.orig {
				info.ByzFired("trustee:" + it.kind)
			} else {
				it.kind = "honest"
				it.decOwner = i
			}
		}
		items = append(items, it)
	}

	// ---- combiners ----
	nComb := 1 + t.Intn("cfg", 2)
	for cb := 0; cb < nComb; cb++ {
		var view []*item
		for _, it := range items {
			if !honestClass && t.Bool("net.drop", 100) {
				info.Fault("drop")
				continue
			}
			view = append(view, it)
			if !honestClass && t.Bool("net.dup", 120) {
				view = append(view, it)
				info.Fault("duplicate")
			}
			if !honestClass && t.Bool("net.misroute", 60) && len(items) > 1 {
				// the combiner pairs a decrypted share with the wrong trustee's key and encrypted share
				o := items[t.Intn("net.misroute", len(items))]
				if o.who != it.who {
					view = append(view, &item{X: o.X, enc: o.enc, dec: it.dec, who: o.who, orig: it.decOwner == o.who, kind: "misrouted-pairing", decOwner: it.decOwner})
					info.Fault("misroute")
				}
			}
		}
		perm := t.Perm("sched", len(view))
		var Xs []kyber.Point
		var Es, Ds []*pvss.PubVerShare
		good := map[int]bool{}
		for k, p := range perm {
			if p != k {
				info.NonTrivial = true
			}
			it := view[p]
			var verr error
			if pn := core.Guard(func() { verr = pvss.VerifyDecShare(suite, G, it.X, it.enc, it.dec) }); pn != nil {
				return viol("totality", "verifydecshare-panic/"+gname, "VerifyDecShare(%s) panicked: %v | %s", it.kind, pn, core.LastStack())
			}
			info.Events++
			info.SigAdd("c%d:%d:%s:%v", cb, it.who, it.kind, verr == nil)
			info.Logf("combiner %d: trustee %d %s -> verify ok=%v", cb, it.who, it.kind, verr == nil)
			if it.orig && verr != nil {
				return viol("dec-verify", "honest-dec-share-rejected/"+gname, "the decrypted share of trustee %d does not verify: %v", it.who, verr)
			}
			if !it.orig && verr == nil {
				return viol("dec-verify", "altered-dec-share-accepted/"+gname+"/"+it.kind, "a decrypted share of kind %s (trustee %d) passes VerifyDecShare", it.kind, it.who)
			}
			Xs, Es, Ds = append(Xs, it.X), append(Es, it.enc), append(Ds, it.dec)
			if it.orig {
				good[it.who] = true
			}
			if len(Ds) < th {
				continue
			}
			var rec kyber.Point
			var rerr error
			if pn := core.Guard(func() { rec, rerr = pvss.RecoverSecret(suite, G, Xs, Es, Ds, uint32(th), uint32(n)) }); pn != nil {
				return viol("totality", "recoversecret-panic/"+gname, "RecoverSecret panicked: %v | %s", pn, core.LastStack())
			}
			switch {
			case rerr == nil && !rec.Equal(want):
				return viol("recover", "recovered-wrong-point/"+gname, "RecoverSecret returned a point different from the commitment of the secret (%d entries, %d untouched distinct)", len(Ds), len(good))
			case rerr == nil && len(good) < th:
				return viol("recover", "recovered-from-fewer-than-t/"+gname, "RecoverSecret succeeded with %d untouched distinct shares, t=%d", len(good), th)
			case rerr != nil && len(good) >= th:
				// duplicates in the slice may legitimately crowd out distinct shares only if the API counts them;
				// the property says any t verified shares recover
				return viol("recover", "refused-with-t-valid/"+gname, "RecoverSecret failed with %d untouched distinct verified shares (t=%d, %d entries): %v", len(good), th, len(Ds), rerr)
			case rerr == nil:
				info.Probe("recovered")
			default:
				info.Probe("refused-fewer-than-t")
			}
		}
		if honestClass && len(good) >= th && len(Ds) < th {
			return viol("recover", "honest-no-recovery/"+gname, "fault-free run never reached recovery")
		}
	}

	// ---- DLEQ proof travelling alone ----
	x := randScalar(g, t, "keys")
	B1, B2 := g.Point().Mul(randScalar(g, t, "keys"), nil), g.Point().Mul(randScalar(g, t, "keys"), nil)
	pr, xG, xH, err := dleq.NewDLEQProof(suite, B1, B2, x)
	if err != nil {
		return viol("dleq", "dleq-new-error/"+gname, "NewDLEQProof: %v", err)
	}
	if err := pr.Verify(suite, B1, B2, xG, xH); err != nil {
		return viol("dleq", "dleq-honest-rejected/"+gname, "an honest DLEQ proof does not verify: %v", err)
	}
	if !honestClass {
		p2 := &dleq.Proof{C: kit.CopyScalar(g, pr.C), R: kit.CopyScalar(g, pr.R), VG: kit.CopyPoint(g, pr.VG), VH: kit.CopyPoint(g, pr.VH)}
		a, b := kit.CopyPoint(g, xG), kit.CopyPoint(g, xH)
		what := ""
		switch t.Intn("net.corrupt", 6) {
		case 0:
			p2.C = g.Scalar().Add(p2.C, g.Scalar().One())
			what = "C"
		case 1:
			p2.R = g.Scalar().Add(p2.R, g.Scalar().One())
			what = "R"
		case 2:
			p2.VG = g.Point().Add(p2.VG, G)
			what = "VG"
		case 3:
			p2.VH = g.Point().Add(p2.VH, G)
			what = "VH"
		case 4:
			a = g.Point().Add(a, G)
			what = "xG"
		case 5:
			b = g.Point().Add(b, G)
			what = "xH"
		}
		info.Fault("dleq-corrupt-" + what)
		if p2.Verify(suite, B1, B2, a, b) == nil {
			return viol("dleq", "dleq-altered-accepted/"+gname+"/"+what, "a DLEQ proof verifies after %s was changed in transit", what)
		}
	}
	return nil
}
