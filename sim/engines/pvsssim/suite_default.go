//go:build !constantTime

package pvsssim

import (
	"go.dedis.ch/kyber/v4/group/p256"
	"go.dedis.ch/kyber/v4/share/pvss"
)

// altSuite is the second group the engine runs PVSS on (absent from the constantTime build of kyber).
func altSuite() pvss.Suite { return p256.NewBlakeSHA256P256() }
