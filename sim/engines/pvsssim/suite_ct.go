//go:build constantTime

package pvsssim

import "go.dedis.ch/kyber/v4/share/pvss"

func altSuite() pvss.Suite { return nil }
