// Package xofsim decides C19: XOFs are stateful stream objects
// (Write/Read/XORKeyStream/Reseed/Clone/Reset) and random.New mixes entropy
// readers that may stall, return short or fail. Operation histories over a
// growing family of objects are checked against a byte-log reference model;
// entropy readers are simulated with faults; range sampling is driven by
// adversarial streams.
package xofsim

import (
	"bytes"
	"crypto/sha256"
	"errors"
	"fmt"
	"io"
	"math/big"

	"go.dedis.ch/kyber/v4"
	"go.dedis.ch/kyber/v4/compatible/compatiblemod"
	"go.dedis.ch/kyber/v4/group/edwards25519"
	"go.dedis.ch/kyber/v4/group/p256"
	"go.dedis.ch/kyber/v4/pairing/bn256"
	"go.dedis.ch/kyber/v4/util/random"
	"go.dedis.ch/kyber/v4/xof/blake2xb"
	"go.dedis.ch/kyber/v4/xof/blake2xs"
	"go.dedis.ch/kyber/v4/xof/keccak"
	"golang.org/x/crypto/blake2b"
	"golang.org/x/crypto/blake2s"
	"golang.org/x/crypto/sha3"

	"verif/sim/core"
	"verif/sim/kit"
)

type Engine struct{}

func init() {
	core.Register(Engine{})
	core.RegisterCheck(core.CheckSpec{Property: "C19", Engines: []string{"xofsim"}, Level: "exploration"})
}

func (Engine) Name() string { return "xofsim" }
func (Engine) Runs(prop, tier string) int {
	if tier == "thorough" {
		return 40000000
	}
	return 600000
}
func (Engine) Real() []string {
	return []string{"xof/blake2xb, xof/blake2xs, xof/keccak (New, Write, Read, XORKeyStream, Reseed, Clone, Reset)", "suite XOF factories (edwards25519, p256, bn256)", "util/random (New, randstream.XORKeyStream, Int, Bits, Bytes)"}
}
func (Engine) Stubs() []string {
	return []string{"entropy readers with faults (one byte per call, short then EOF, error at once, error after j bytes, zero-length reads)", "adversarial cipher.Stream prefixes for range sampling", "byte-log reference model with single-shot replay; golang.org/x/crypto primitives as the epoch-0 reference"}
}
func (Engine) Rule() string {
	return "one run = one history (<=30 operations, chunk sizes 0..600) over an XOF and its clones | one random.New session over 1..4 faulty readers | one range-sampling session under an adversarial stream; signature = hash of the operation/fault sequence; non-trivial = history has >=2 operations of different kinds, or a reader fault fired, or the stream forced a retry"
}

func viol(oracle, class, format string, a ...any) *core.Violation {
	return &core.Violation{Property: "C19", Engine: "xofsim", Oracle: oracle, Class: "C19/" + class, Detail: fmt.Sprintf(format, a...)}
}

func (Engine) RunOne(t *core.Tape, prop, tier string, info *core.RunInfo) *core.Violation {
	switch t.Pick("cfg.kind", []int{6, 2, 2}) {
	case 1:
		return runReaders(t, info)
	case 2:
		return runRange(t, info)
	}
	return runHistory(t, info)
}

// ------------------------------------------------------------------ (a) histories

type impl struct {
	name string
	new  func(seed []byte) kyber.XOF
	// ref0 returns the first n output bytes for (seed, absorbed) straight from x/crypto (epoch 0 only)
	ref0 func(seed, absorbed []byte, n int) []byte
	ksz  int
}

var impls = []impl{
	{"blake2xb", blake2xb.New, func(seed, abs []byte, n int) []byte {
		s1, s2 := seed, []byte(nil)
		if len(seed) > blake2b.Size {
			s1, s2 = seed[:blake2b.Size], seed[blake2b.Size:]
		}
		x, _ := blake2b.NewXOF(blake2b.OutputLengthUnknown, s1)
		x.Write(s2)
		x.Write(abs)
		out := make([]byte, n)
		io.ReadFull(x, out)
		return out
	}, blake2b.Size},
	{"blake2xs", blake2xs.New, func(seed, abs []byte, n int) []byte {
		s1, s2 := seed, []byte(nil)
		if len(seed) > blake2s.Size {
			s1, s2 = seed[:blake2s.Size], seed[blake2s.Size:]
		}
		x, _ := blake2s.NewXOF(blake2s.OutputLengthUnknown, s1)
		x.Write(s2)
		x.Write(abs)
		out := make([]byte, n)
		io.ReadFull(x, out)
		return out
	}, blake2s.Size},
	{"keccak", keccak.New, func(seed, abs []byte, n int) []byte {
		x := sha3.NewShake256()
		x.Write(seed)
		x.Write(abs)
		out := make([]byte, n)
		x.Read(out)
		return out
	}, 32},
	{"suite-ed25519", func(s []byte) kyber.XOF { return edwards25519.NewBlakeSHA256Ed25519().XOF(s) }, nil, 64},
	{"suite-p256", func(s []byte) kyber.XOF { return p256.NewBlakeSHA256P256().XOF(s) }, nil, 64},
	{"suite-bn256", func(s []byte) kyber.XOF { return bn256.NewSuite().XOF(s) }, nil, 64},
}

// op is one logged logical operation of an object's life.
type op struct {
	kind byte // 'w' write, 'r' read n bytes, 's' reseed
	data []byte
	n    int
}

type obj struct {
	x          kyber.XOF
	log        []op
	fromClone  bool
	reseeded   bool
	dead       bool // state no longer modelled (see observations)
	reading    bool // has read since creation/reseed (writes are illegal until a reseed)
	id         int
	unmodelled bool // a clone after Reset: still used, no longer checked
}

// expected replays a log single-shot on a fresh factory instance: adjacent writes are merged into
// one Write, adjacent reads into one Read. It returns the bytes of the LAST n squeezed bytes.
func expected(im impl, seed []byte, log []op, n int) []byte {
	x := im.new(seed)
	var wbuf []byte
	pendingRead := 0
	var last []byte
	flushW := func() {
		if len(wbuf) > 0 {
			x.Write(wbuf)
			wbuf = nil
		}
	}
	flushR := func() {
		if pendingRead > 0 {
			buf := make([]byte, pendingRead)
			io.ReadFull(x, buf)
			last = buf
			pendingRead = 0
		}
	}
	for _, o := range log {
		switch o.kind {
		case 'w':
			flushR()
			wbuf = append(wbuf, o.data...)
		case 'r':
			flushW()
			pendingRead += o.n
		case 's':
			flushW()
			flushR()
			x.Reseed()
		}
	}
	flushW()
	flushR()
	if len(last) < n {
		return nil
	}
	return last[len(last)-n:]
}

func chunk(t *core.Tape, ksz int) int {
	switch t.Pick("hist.size", []int{2, 2, 3, 3, 2}) {
	case 0:
		return 0
	case 1:
		return 1
	case 2:
		return ksz - 1 + t.Intn("hist.size", 3)
	case 3:
		return t.Intn("hist.size", 601)
	}
	return 2*ksz - 1 + t.Intn("hist.size", 3)
}

func runHistory(t *core.Tape, info *core.RunInfo) *core.Violation {
	im := impls[t.Intn("cfg.impl", len(impls))]
	var slen int
	switch t.Pick("cfg.seedlen", []int{2, 2, 3, 3, 3, 2, 3}) {
	case 0:
		slen = 0
	case 1:
		slen = 1
	case 2:
		slen = im.ksz - 1
	case 3:
		slen = im.ksz
	case 4:
		slen = im.ksz + 1
	case 5:
		slen = 2 * im.ksz
	default:
		slen = t.Intn("cfg.seedlen", 301)
	}
	seed := t.Bytes("cfg.seed", slen)
	info.Config["kind"], info.Config["impl"], info.Config["seed_len"] = "history", im.name, slen
	objs := []*obj{{x: im.new(seed), id: 0}}
	steps := 1 + t.Intn("cfg.steps", 30)
	kinds := map[byte]bool{}
	var trace []string
	for s := 0; s < steps; s++ {
		o := objs[t.Intn("hist.obj", len(objs))]
		if o.dead {
			if o.unmodelled {
				// a clone after its own Reset: C19 does not say what it yields, but whatever is done with
				// it must leave every OTHER object alone (seed C19j: after Reseed, Clone and Reset of both,
				// original and clone shared one live state)
				core.Guard(func() {
					switch t.Intn("hist.unmodelled", 3) {
					case 0:
						_, _ = o.x.Read(make([]byte, 1+t.Intn("hist.unmodelled", 100)))
					case 1:
						o.x.Reset()
					default:
						o.x.Reseed()
						_, _ = o.x.Write([]byte{9})
					}
				})
				info.Faults["use-of-a-reset-clone"]++
				trace = append(trace, fmt.Sprintf("o%d.?", o.id))
			}
			continue
		}
		k := t.Pick("hist.op", []int{5, 3, 3, 2, 2, 1, 1})
		switch k {
		case 0: // Read
			n := chunk(t, im.ksz)
			buf := make([]byte, n)
			var rn int
			var err error
			if pn := core.Guard(func() { rn, err = o.x.Read(buf) }); pn != nil {
				return viol("totality", "read-panic/"+im.name, "Read(%d) panicked: %v", n, pn)
			}
			if err != nil || rn != n {
				return viol("read", "read-short/"+im.name, "Read(%d) returned n=%d err=%v", n, rn, err)
			}
			o.log = append(o.log, op{kind: 'r', n: n})
			o.reading = true
			if n > 0 {
				want := expected(im, seed, o.log, n)
				if !bytes.Equal(buf, want) {
					return viol("chunk-independence", "read-differs-from-single-shot/"+im.name, "object %d: Read(%d) after %s gives %x, the single-shot replay of the same history gives %x", o.id, n, histString(o.log), head(buf), head(want))
				}
			}
			kinds['r'] = true
			trace = append(trace, fmt.Sprintf("o%d.r%d", o.id, n))
		case 1: // XORKeyStream
			n := chunk(t, im.ksz)
			src := t.Bytes("hist.data", n)
			extra := 0
			aliased := t.Bool("hist.alias", 400)
			var dst []byte
			if aliased && t.Bool("hist.alias2", 300) {
				// in place in a LARGER buffer: dst = buf, src = buf[:n] (cipher.Stream: "It is acceptable
				// to pass a dst bigger than src"; the processed part overlaps entirely). Seed C19e: a fast
				// path recognised only the identical slice as in-place use.
				extra = 1 + t.Intn("hist.alias2", 5)
				buf := append(kit.CopyBytes(src), bytes.Repeat([]byte{0xee}, extra)...)
				src, dst = buf[:n], buf
			} else if aliased {
				dst = src
			} else {
				if t.Bool("hist.alias", 300) {
					extra = 1 + t.Intn("hist.alias", 5)
				}
				dst = bytes.Repeat([]byte{0xee}, n+extra)
			}
			orig := kit.CopyBytes(src)
			if pn := core.Guard(func() { o.x.XORKeyStream(dst, src) }); pn != nil {
				return viol("totality", "xorkeystream-panic/"+im.name, "XORKeyStream(%d bytes, aliased=%v) panicked: %v", n, aliased, pn)
			}
			o.log = append(o.log, op{kind: 'r', n: n})
			o.reading = true
			if n > 0 {
				ks := expected(im, seed, o.log, n)
				for i := 0; i < n; i++ {
					if dst[i] != orig[i]^ks[i] {
						return viol("xorkeystream", "xorkeystream-not-read-xor-src/"+im.name, "object %d: XORKeyStream byte %d is %02x, src^Read would be %02x (aliased=%v, after %s)", o.id, i, dst[i], orig[i]^ks[i], aliased, histString(o.log))
					}
				}
			}
			for i := n; i < n+extra; i++ {
				if dst[i] != 0xee {
					return viol("xorkeystream", "xorkeystream-wrote-past-src/"+im.name, "XORKeyStream wrote beyond len(src) into dst[%d]", i)
				}
			}
			kinds['x'] = true
			trace = append(trace, fmt.Sprintf("o%d.x%d", o.id, n))
		case 2: // Write
			n := chunk(t, im.ksz)
			data := t.Bytes("hist.data", n)
			if o.reading {
				// illegal by design (documented: panics after Read). The only requirement: no silent acceptance.
				var err error
				pn := core.Guard(func() { _, err = o.x.Write(data) })
				if pn == nil && err == nil && n > 0 {
					return viol("write-after-read", "write-after-read-silently-accepted/"+im.name, "Write(%d bytes) after Read without Reseed was accepted without panic or error", n)
				}
				info.Faults["illegal-write-after-read"]++
				o.dead = true
				trace = append(trace, fmt.Sprintf("o%d.W!", o.id))
				continue
			}
			var wn int
			var err error
			if pn := core.Guard(func() { wn, err = o.x.Write(data) }); pn != nil {
				return viol("totality", "write-panic/"+im.name, "Write(%d) on a writable XOF panicked: %v", n, pn)
			}
			if err != nil || wn != n {
				return viol("write", "write-short/"+im.name, "Write(%d) returned n=%d err=%v", n, wn, err)
			}
			o.log = append(o.log, op{kind: 'w', data: data})
			kinds['w'] = true
			trace = append(trace, fmt.Sprintf("o%d.w%d", o.id, n))
		case 3: // Reseed
			if pn := core.Guard(func() { o.x.Reseed() }); pn != nil {
				return viol("totality", "reseed-panic/"+im.name, "Reseed panicked: %v", pn)
			}
			o.log = append(o.log, op{kind: 's'})
			o.reading = false
			o.reseeded = true
			// Reseed makes the XOF writable again
			var err error
			if pn := core.Guard(func() { _, err = o.x.Write([]byte{1, 2, 3}) }); pn != nil || err != nil {
				return viol("reseed", "not-writable-after-reseed/"+im.name, "Write after Reseed failed: panic=%v err=%v", pn, err)
			}
			o.log = append(o.log, op{kind: 'w', data: []byte{1, 2, 3}})
			kinds['s'] = true
			trace = append(trace, fmt.Sprintf("o%d.s", o.id))
		case 4: // Clone
			if len(objs) >= 4 {
				continue
			}
			var c kyber.XOF
			if pn := core.Guard(func() { c = o.x.Clone() }); pn != nil {
				return viol("totality", "clone-panic/"+im.name, "Clone panicked: %v", pn)
			}
			no := &obj{x: c, log: append([]op{}, o.log...), fromClone: true, reseeded: o.reseeded, reading: o.reading, id: len(objs)}
			objs = append(objs, no)
			kinds['c'] = true
			trace = append(trace, fmt.Sprintf("o%d.c->o%d", o.id, no.id))
		case 5: // Reset
			if pn := core.Guard(func() { o.x.Reset() }); pn != nil {
				return viol("totality", "reset-panic/"+im.name, "Reset panicked: %v", pn)
			}
			if o.fromClone {
				// the property speaks of XOFs obtained from their factory; a clone does not carry the seed (observation)
				info.Probe("reset-on-clone-unmodelled")
				o.dead, o.unmodelled = true, true
				trace = append(trace, fmt.Sprintf("o%d.z?", o.id))
				continue
			}
			if o.reseeded {
				info.Probe("reset-after-reseed")
			}
			o.log = nil
			o.reading = false
			o.reseeded = false
			kinds['z'] = true
			trace = append(trace, fmt.Sprintf("o%d.z", o.id))
			// the seeded initial state: the next bytes are the first bytes of a fresh instance
			probe := make([]byte, 40)
			o.x.Read(probe)
			o.log = append(o.log, op{kind: 'r', n: 40})
			o.reading = true
			fresh := make([]byte, 40)
			im.new(seed).Read(fresh)
			if !bytes.Equal(probe, fresh) {
				return viol("reset", "reset-not-initial-state/"+im.name, "after Reset (history %v) the XOF yields %x, a freshly seeded one %x", trace, head(probe), head(fresh))
			}
		case 6: // epoch-0 cross-check against x/crypto
			if im.ref0 == nil || o.reseeded || o.fromClone && false {
				continue
			}
			var abs []byte
			total := 0
			ok := true
			for _, e := range o.log {
				switch e.kind {
				case 'w':
					abs = append(abs, e.data...)
				case 'r':
					total += e.n
				case 's':
					ok = false
				}
			}
			if !ok {
				continue
			}
			n := 1 + t.Intn("hist.size", 100)
			buf := make([]byte, n)
			o.x.Read(buf)
			o.log = append(o.log, op{kind: 'r', n: n})
			o.reading = true
			want := im.ref0(seed, abs, total+n)[total:]
			if !bytes.Equal(buf, want) {
				return viol("determinism", "differs-from-x-crypto-primitive/"+im.name, "seed %d bytes, absorbed %d bytes, squeezed %d: got %x, the x/crypto primitive gives %x", len(seed), len(abs), total, head(buf), head(want))
			}
			info.Probe("x-crypto-cross-check")
		}
		info.Events++
	}
	if len(kinds) >= 2 {
		info.NonTrivial = true
	}
	info.SigAdd("%s:%d:%v", im.name, slen, trace)
	info.Logf("%s seed=%d history=%v", im.name, slen, trace)
	return nil
}

func head(b []byte) []byte {
	if len(b) > 24 {
		return b[:24]
	}
	return b
}

func histString(log []op) string {
	s := ""
	for _, o := range log {
		switch o.kind {
		case 'w':
			s += fmt.Sprintf("w%d ", len(o.data))
		case 'r':
			s += fmt.Sprintf("r%d ", o.n)
		case 's':
			s += "reseed "
		}
	}
	return s
}

// ------------------------------------------------------------------ (b) entropy readers with faults

var errSrc = errors.New("entropy source failed")

type faultyReader struct {
	data   []byte
	off    int
	kind   string
	failAt int
	zeros  int
	given  []byte // bytes actually handed out
}

func (r *faultyReader) Read(p []byte) (int, error) {
	switch r.kind {
	case "error-at-once":
		return 0, errSrc
	case "error-after":
		if r.off >= r.failAt {
			return 0, errSrc
		}
	case "short-then-eof":
		if r.off >= r.failAt {
			return 0, io.EOF
		}
	case "zero-reads-then-data":
		if r.zeros < 2 {
			r.zeros++
			return 0, nil
		}
	}
	n := len(p)
	if r.kind == "one-byte-per-call" && n > 1 {
		n = 1
	}
	if (r.kind == "error-after" || r.kind == "short-then-eof") && r.off+n > r.failAt {
		n = r.failAt - r.off
	}
	if r.off+n > len(r.data) {
		n = len(r.data) - r.off
	}
	if n <= 0 {
		return 0, io.EOF
	}
	copy(p, r.data[r.off:r.off+n])
	r.given = append(r.given, r.data[r.off:r.off+n]...)
	r.off += n
	return n, nil
}

func runReaders(t *core.Tape, info *core.RunInfo) *core.Violation {
	k := 1 + t.Intn("cfg", 4)
	kindsAll := []string{"good", "one-byte-per-call", "short-then-eof", "error-at-once", "error-after", "zero-reads-then-data"}
	var frs []*faultyReader
	var names []string
	for i := 0; i < k; i++ {
		kind := kindsAll[t.Pick("cfg.reader", []int{4, 2, 2, 2, 2, 2})]
		fr := &faultyReader{data: t.Bytes("cfg.data", 256), kind: kind, failAt: t.Intn("cfg.fail", 32)}
		frs = append(frs, fr)
		names = append(names, kind)
		if kind != "good" {
			info.Fault("reader:" + kind)
		}
	}
	info.Config["kind"], info.Config["readers"] = "entropy-readers", names
	calls := 1 + t.Intn("cfg", 3)
	outLen := t.Intn("cfg", 100)
	run := func(readers []*faultyReader) (outs [][]byte, panicked any) {
		rs := make([]io.Reader, len(readers))
		for i := range readers {
			rs[i] = readers[i]
		}
		st := random.New(rs...)
		for c := 0; c < calls; c++ {
			out := make([]byte, outLen)
			if pn := core.Guard(func() { st.XORKeyStream(out, out) }); pn != nil {
				return outs, pn
			}
			outs = append(outs, out)
		}
		return outs, nil
	}
	outs, pn := run(frs)
	info.Events += calls
	info.SigAdd("rd:%v:%d:%d", names, calls, outLen)
	info.Logf("readers=%v calls=%d len=%d panic=%v", names, calls, outLen, pn != nil)
	// a reader "works" for a call when it can deliver 32 bytes without error
	working := func(fr *faultyReader, call int) bool {
		switch fr.kind {
		case "error-at-once":
			return false
		case "error-after", "short-then-eof":
			return fr.failAt >= 32*(call+1)
		}
		return true
	}
	for c := 0; c < calls; c++ {
		any := false
		for _, fr := range frs {
			if working(fr, c) {
				any = true
			}
		}
		if !any {
			if pn == nil && len(outs) > c {
				// all sources failed for this call: the documented behaviour is a panic
				return viol("all-readers-fail", "no-panic-with-all-readers-failing", "call %d: every reader failed, yet XORKeyStream returned", c)
			}
			return nil
		}
		if len(outs) <= c {
			return viol("works-with-one-reader", "panic-although-a-reader-works", "call %d: at least one reader delivers 32 bytes, but XORKeyStream panicked: %v (readers %v)", c, pn, names)
		}
	}
	// output = function of the bytes consumed: recompute independently per call
	offs := make([]int, len(frs))
	for c := 0; c < calls; c++ {
		h := sha256.New()
		for i, fr := range frs {
			// what this reader handed out during this call (at most 32 bytes)
			n := 32
			switch fr.kind {
			case "error-at-once":
				n = 0
			case "error-after", "short-then-eof":
				if fr.failAt-offs[i] < n {
					n = fr.failAt - offs[i]
				}
				if n < 0 {
					n = 0
				}
			}
			h.Write(fr.data[offs[i] : offs[i]+n])
			offs[i] += n
		}
		x, _ := blake2b.NewXOF(blake2b.OutputLengthUnknown, h.Sum(nil))
		want := make([]byte, outLen)
		io.ReadFull(x, want)
		if !bytes.Equal(outs[c], want) {
			return viol("deterministic-in-consumed-bytes", "output-differs-from-recomputation", "call %d: output %x differs from blake2xb(sha256(consumed bytes)) = %x (readers %v)", c, head(outs[c]), head(want), names)
		}
	}
	// depends on every reader: flip one consumed byte of one reader. Only outputs of at
	// least 16 bytes are compared: a 1-byte output coincides by chance once in 256 runs
	// (false alarm of the first thorough sweep, DESIGN 9.4).
	if outLen >= 16 {
		i := t.Intn("oracle.flip", len(frs))
		if len(frs[i].given) > 0 {
			var frs2 []*faultyReader
			for j, fr := range frs {
				d := kit.CopyBytes(fr.data)
				if j == i {
					d[t.Intn("oracle.flip", minInt(len(fr.given), 32))] ^= 0x01
				}
				frs2 = append(frs2, &faultyReader{data: d, kind: fr.kind, failAt: fr.failAt})
			}
			outs2, _ := run(frs2)
			if len(outs2) > 0 && bytes.Equal(outs2[0], outs[0]) {
				return viol("depends-on-every-reader", "output-ignores-a-reader", "changing one byte handed out by reader %d (%s) does not change the output", i, names[i])
			}
			info.Probe("single-byte-sensitivity-checked")
		}
	}
	return nil
}

func minInt(a, b int) int {
	if a < b {
		return a
	}
	return b
}

// ------------------------------------------------------------------ (c) range-exact sampling

// advStream yields an adversarial prefix and then PRNG bytes; it counts what it handed out.
type advStream struct {
	prefix []byte
	tail   kyber.XOF
	used   int
}

func (a *advStream) XORKeyStream(dst, src []byte) {
	for i := range src {
		var b byte
		if a.used < len(a.prefix) {
			b = a.prefix[a.used]
		} else {
			var one [1]byte
			a.tail.Read(one[:])
			b = one[0]
		}
		a.used++
		dst[i] = src[i] ^ b
	}
}

func runRange(t *core.Tape, info *core.RunInfo) *core.Violation {
	info.Config["kind"] = "range"
	if t.Bool("cfg", 500) {
		// random.Bits
		bitlen := uint(t.Pick("cfg.bits", []int{1, 1, 1, 1, 4}))
		switch bitlen {
		case 0:
			bitlen = 0
		case 1:
			bitlen = 1
		case 2:
			bitlen = 8
		case 3:
			bitlen = 1030
		default:
			bitlen = uint(t.Intn("cfg.bits", 1031))
		}
		exact := t.Bool("cfg", 500)
		pre := advPrefix(t, int(bitlen+7)/8)
		st := &advStream{prefix: pre, tail: kit.Ed().XOF(t.Bytes("cfg.seed", 16))}
		var b []byte
		if pn := core.Guard(func() { b = random.Bits(bitlen, exact, st) }); pn != nil {
			return viol("totality", "bits-panic", "random.Bits(%d, %v) panicked: %v", bitlen, exact, pn)
		}
		info.Events++
		info.SigAdd("bits:%d:%v:%x", bitlen, exact, pre)
		v := new(big.Int).SetBytes(b)
		if uint(v.BitLen()) > bitlen {
			return viol("range", "bits-too-long", "random.Bits(%d, %v) returned a %d-bit value %x", bitlen, exact, v.BitLen(), b)
		}
		if exact && bitlen > 0 && uint(v.BitLen()) != bitlen {
			return viol("range", "bits-not-exact", "random.Bits(%d, exact) returned a %d-bit value", bitlen, v.BitLen())
		}
		if len(b) != int(bitlen+7)/8 {
			return viol("range", "bits-length", "random.Bits(%d) returned %d bytes", bitlen, len(b))
		}
		if len(pre) > 0 {
			info.Fault("adversarial-prefix")
		}
		// "a uniform random BigInt": every stream bit that falls inside the requested bit length
		// carries entropy - exact costs the top bit only. Two streams that differ in one such bit
		// must give different values (seed C19f: exact forced all significant bits of the first byte).
		free := int(bitlen)
		if exact {
			free--
		}
		if free >= 1 {
			nb := int(bitlen+7) / 8
			full := make([]byte, nb) // the first nb stream bytes of this run, then the same with one bit flipped
			(&advStream{prefix: pre, tail: kit.Ed().XOF(t.Bytes("cfg.seed2", 16))}).XORKeyStream(full, make([]byte, nb))
			k := t.Intn("oracle.bit", free) // bit k of the value, counted from the least significant
			alt := kit.CopyBytes(full)
			alt[nb-1-k/8] ^= 1 << (k % 8)
			b1 := random.Bits(bitlen, exact, &advStream{prefix: full, tail: kit.Ed().XOF([]byte("t"))})
			b2 := random.Bits(bitlen, exact, &advStream{prefix: alt, tail: kit.Ed().XOF([]byte("t"))})
			if bytes.Equal(b1, b2) {
				return viol("uniform", "bits-ignores-a-stream-bit", "random.Bits(%d, exact=%v): flipping stream bit %d (inside the requested length) does not change the value %x", bitlen, exact, k, b1)
			}
			info.Probe("bits-sensitivity-checked")
		}
		info.Logf("bits %d exact=%v -> %d-bit value", bitlen, exact, v.BitLen())
		return nil
	}
	// random.Int
	var m *big.Int
	switch t.Pick("cfg.mod", []int{1, 1, 1, 3, 3, 2, 3}) {
	case 0:
		m = big.NewInt(1)
	case 1:
		m = big.NewInt(2)
	case 2:
		m = big.NewInt(3)
	case 3:
		m = new(big.Int).Lsh(big.NewInt(1), uint(1+t.Intn("cfg.mod", 520)))
	case 4:
		m = new(big.Int).Lsh(big.NewInt(1), uint(2+t.Intn("cfg.mod", 519)))
		if t.Bool("cfg.mod", 500) {
			m.Add(m, big.NewInt(1))
		} else {
			m.Sub(m, big.NewInt(1))
		}
	case 5:
		m = new(big.Int).Set(kit.L)
	default:
		m = new(big.Int).SetBytes(t.Bytes("cfg.mod", 1+t.Intn("cfg.mod", 65)))
		if m.Sign() == 0 {
			m = big.NewInt(5)
		}
	}
	mod := compatiblemod.FromBigInt(m)
	nb := (m.BitLen() + 7) / 8
	pre := advPrefix(t, nb*(1+t.Intn("cfg.retry", 4)))
	seedB := t.Bytes("cfg.seed", 16)
	draw := func() (*big.Int, int, any) {
		st := &advStream{prefix: pre, tail: kit.Ed().XOF(seedB)}
		var v *big.Int
		pn := core.Guard(func() { v = random.Int(mod, st).ToBigInt() })
		return v, st.used, pn
	}
	v, used, pn := draw()
	if pn != nil {
		return viol("totality", "int-panic", "random.Int(mod of %d bits) panicked: %v", m.BitLen(), pn)
	}
	info.Events++
	info.SigAdd("int:%s:%x", m.Text(16), pre)
	if v.Sign() < 0 || v.Cmp(m) >= 0 {
		return viol("range", "int-out-of-range", "random.Int returned %s for modulus %s", v, m)
	}
	v2, used2, _ := draw()
	if v2.Cmp(v) != 0 || used2 != used {
		return viol("determinism", "int-not-function-of-stream", "the same stream gave %s (after %d bytes) and then %s (after %d bytes)", v, used, v2, used2)
	}
	if used > nb {
		info.Fault("forced-retry")
	}
	if len(pre) > 0 {
		info.Fault("adversarial-prefix")
	}
	info.Logf("int mod %d bits: consumed %d bytes", m.BitLen(), used)
	// no modulo bias (small moduli): enumerate the first candidate byte
	if m.BitLen() <= 8 && m.Cmp(big.NewInt(1)) > 0 {
		counts := map[int64]int{}
		for b := 0; b < 256; b++ {
			st := &advStream{prefix: []byte{byte(b)}, tail: kit.Ed().XOF(seedB)}
			r := random.Int(mod, st).ToBigInt()
			if st.used == 1 {
				counts[r.Int64()]++
			}
		}
		want := -1
		for r := int64(0); r < m.Int64(); r++ {
			if want < 0 {
				want = counts[r]
			}
			if counts[r] != want || want == 0 {
				return viol("no-modulo-bias", "int-biased", "modulus %s: residue %d is hit by %d first-try candidate bytes, residue 0 by %d", m, r, counts[r], want)
			}
		}
		info.Probe("bias-enumeration")
	}
	return nil
}

func advPrefix(t *core.Tape, n int) []byte {
	switch t.Pick("cfg.prefix", []int{3, 2, 2, 2}) {
	case 1:
		return bytes.Repeat([]byte{0xff}, n)
	case 2:
		return bytes.Repeat([]byte{0x00}, n)
	case 3:
		return t.Bytes("cfg.prefixbytes", n)
	}
	return nil
}
