// Package wire decides the stream and corruption clauses of C03 and C04: a
// sender writes values into a simulated byte stream that chunks, stalls,
// short-writes, hits EOF or an error at every offset, and a "hostile
// middlebox" flips, truncates, extends and splices real encodings before the
// receiver decodes them and goes on using what it accepted.
package wire

import (
	"bytes"
	"crypto/cipher"
	"crypto/sha256"
	"errors"
	"fmt"
	"go.dedis.ch/kyber/v4/group/mod"
	"io"
	"math/big"
	"strings"

	"go.dedis.ch/kyber/v4"
	"go.dedis.ch/kyber/v4/encrypt/ecies"
	"go.dedis.ch/kyber/v4/group/edwards25519"
	"go.dedis.ch/kyber/v4/group/p256"
	"go.dedis.ch/kyber/v4/pairing/bn256"
	"go.dedis.ch/kyber/v4/proof"
	pvss "go.dedis.ch/kyber/v4/share/vss/pedersen"
	rvss "go.dedis.ch/kyber/v4/share/vss/rabin"
	"go.dedis.ch/kyber/v4/sign/anon"
	"go.dedis.ch/kyber/v4/sign/bls"
	"go.dedis.ch/kyber/v4/sign/cosi"
	"go.dedis.ch/kyber/v4/sign/eddsa"
	"go.dedis.ch/kyber/v4/sign/schnorr"
	kenc "go.dedis.ch/kyber/v4/util/encoding"

	"verif/sim/core"
	"verif/sim/kit"
)

type Engine struct{}

func init() {
	core.Register(Engine{})
	core.RegisterCheck(core.CheckSpec{Property: "C03", Engines: []string{"wire"}, Level: "exploration"})
	core.RegisterCheck(core.CheckSpec{Property: "C04", Engines: []string{"wire", "vsssim"}, Level: "fault_enumeration"})
}

func (Engine) Name() string { return "wire" }
func (Engine) Runs(prop, tier string) int {
	if prop == "C04" {
		if tier == "thorough" {
			return 20000
		}
		return 700
	}
	if tier == "thorough" {
		return 200000
	}
	return 10000
}
func (Engine) Real() []string {
	return []string{"MarshalBinary/UnmarshalBinary/MarshalTo/UnmarshalFrom of every point and scalar type of all group instances", "group/internal/marshalling", "util/encoding (hex helpers)", "suite.Read/suite.Write (fixbuf)",
		"verifiers/decoders of composite messages: schnorr, eddsa, bls, cosi, proof.HashVerify, ecies.Decrypt, anon.Decrypt, vss Deal.Unmarshal (both variants)"}
}
func (Engine) Stubs() []string {
	return []string{"byte stream between sender and receiver (chunked reads incl. zero-length reads, short writes, EOF/error at an offset)", "hostile middlebox (bit flips, truncation, extension, splice, constant fill)"}
}
func (Engine) Rule() string {
	return "C03: one run = one sender->stream->receiver session over one group instance with a tape-drawn sequence of <=12 values and tape-drawn read chunking; C04: one run = one (group instance or composite message, value) pair with EOF and reader error at EVERY offset, EVERY single-bit flip (sampled above 160 bytes) and structured corruptions; signature = group, value kinds, chunk pattern / corruption verdict vector; non-trivial = the stream did not deliver whole values in single reads, or a corruption was applied"
}

func viol(prop, oracle, class, format string, a ...any) *core.Violation {
	return &core.Violation{Property: prop, Engine: "wire", Oracle: oracle, Class: prop + "/" + class, Detail: fmt.Sprintf(format, a...)}
}

var groupsCache []*grp

func groupList() []*grp {
	if groupsCache == nil {
		groupsCache = allGroups()
		calibrate(groupsCache)
	}
	return groupsCache
}

// calibrate drops an independent membership model that does not accept honest points
// (a mis-modelled encoding must not turn into false alarms).
var uncalibrated = map[string]bool{}

func calibrate(gs []*grp) {
	for _, gr := range gs {
		if gr.member == nil {
			continue
		}
		ok := true
		for _, k := range []int64{1, 2, 7, 123456789} {
			var enc []byte
			if core.Guard(func() { enc, _ = gr.g.Point().Mul(gr.g.Scalar().SetInt64(k), nil).MarshalBinary() }) != nil {
				ok = false
				break
			}
			if in, _ := gr.member(enc); !in {
				ok = false
			}
		}
		if !ok {
			gr.member = nil
			uncalibrated[gr.name] = true
		}
	}
}

// ---------------------------------------------------------------- value pools

type val struct {
	p    kyber.Point
	s    kyber.Scalar
	kind string
}

func (v val) isPoint() bool { return v.p != nil }
func (v val) marshal() ([]byte, error) {
	if v.p != nil {
		return v.p.MarshalBinary()
	}
	return v.s.MarshalBinary()
}

func try(f func()) bool { return core.Guard(f) == nil }

func pool(gr *grp, t *core.Tape) []val {
	g := gr.g
	var vs []val
	addP := func(kind string, f func() kyber.Point) {
		var p kyber.Point
		if try(func() { p = f() }) && p != nil {
			vs = append(vs, val{p: p, kind: kind})
		}
	}
	sc := func() kyber.Scalar { return g.Scalar().SetBytes(t.Bytes("val", 64)) }
	addP("identity", func() kyber.Point { return g.Point().Null() })
	addP("base", func() kyber.Point { return g.Point().Base() })
	addP("k*base", func() kyber.Point { return g.Point().Mul(sc(), nil) })
	addP("2*base", func() kyber.Point { return g.Point().Mul(g.Scalar().SetInt64(2), nil) })
	addP("sum-unnormalised", func() kyber.Point {
		a, b := g.Point().Mul(sc(), nil), g.Point().Mul(sc(), nil)
		return g.Point().Add(a, b)
	})
	addP("difference-unnormalised", func() kyber.Point {
		a, b := g.Point().Mul(sc(), nil), g.Point().Mul(sc(), nil)
		return g.Point().Sub(a, b)
	})
	addP("neg", func() kyber.Point { return g.Point().Neg(g.Point().Mul(sc(), nil)) })
	addP("p-p", func() kyber.Point { a := g.Point().Mul(sc(), nil); return g.Point().Sub(a, a) })
	// the identity reached in other ways (seed C03f: P-256 Neg(identity) was stored as (0, p))
	addP("neg-identity", func() kyber.Point { return g.Point().Neg(g.Point().Null()) })
	addP("zero-times-point", func() kyber.Point { return g.Point().Mul(g.Scalar().Zero(), g.Point().Mul(sc(), nil)) })
	addP("p-plus-neg-p", func() kyber.Point { a := g.Point().Mul(sc(), nil); return g.Point().Add(a, g.Point().Neg(a)) })
	addP("neg-of-p-minus-p", func() kyber.Point { a := g.Point().Mul(sc(), nil); return g.Point().Neg(g.Point().Sub(a, a)) })
	addP("picked", func() kyber.Point { return g.Point().Pick(kit.Ed().XOF(t.Bytes("val", 16))) })
	addP("embedded", func() kyber.Point {
		p := g.Point()
		if p.EmbedLen() <= 0 {
			return nil
		}
		return p.Embed(t.Bytes("val", 1+t.Intn("val", p.EmbedLen())), kit.Ed().XOF(t.Bytes("val", 16)))
	})
	// Pick/Embed under a stream whose first bytes are all ones: candidates at the top of the coordinate
	// range (for P-256, x >= p needs the first four bytes ff; a random stream gets there once in 2^32)
	ffStream := func() cipher.Stream {
		return &prefixStream{prefix: []byte{0xff, 0xff, 0xff, 0xff, 0xff, 0xff, 0xff, 0xff}, tail: kit.Ed().XOF(t.Bytes("val", 16))}
	}
	addP("picked-top-of-range", func() kyber.Point { return g.Point().Pick(ffStream()) })
	addP("embedded-top-of-range", func() kyber.Point {
		p := g.Point()
		if p.EmbedLen() <= 0 {
			return nil
		}
		return p.Embed(t.Bytes("val", 1+t.Intn("val", p.EmbedLen())), ffStream())
	})
	addP("hashed", func() kyber.Point {
		h, ok := g.Point().(kyber.HashablePoint)
		if !ok {
			return nil
		}
		return h.Hash(t.Bytes("val", 20))
	})
	if gr.which == 3 {
		addP("pairing-output", func() kyber.Point {
			a := gr.suite.G1().Point().Mul(gr.suite.G1().Scalar().SetBytes(t.Bytes("val", 48)), nil)
			b := gr.suite.G2().Point().Mul(gr.suite.G2().Scalar().SetBytes(t.Bytes("val", 48)), nil)
			return gr.suite.Pair(a, b)
		})
	}
	addS := func(kind string, f func() kyber.Scalar) {
		var s kyber.Scalar
		if try(func() { s = f() }) && s != nil {
			vs = append(vs, val{s: s, kind: kind})
		}
	}
	addS("zero", func() kyber.Scalar { return g.Scalar().Zero() })
	addS("one", func() kyber.Scalar { return g.Scalar().One() })
	addS("q-1", func() kyber.Scalar { return g.Scalar().Neg(g.Scalar().One()) })
	addS("small", func() kyber.Scalar { return g.Scalar().SetInt64(int64(1 + t.Intn("val", 1000))) })
	addS("random", sc)
	addS("product", func() kyber.Scalar { return g.Scalar().Mul(sc(), sc()) })
	addS("picked", func() kyber.Scalar { return g.Scalar().Pick(kit.Ed().XOF(t.Bytes("val", 16))) })
	return vs
}

// ---------------------------------------------------------------- simulated stream

var errInjected = errors.New("injected stream error")

type simReader struct {
	data   []byte
	off    int
	eofAt  int // bytes available before EOF (-1: all)
	failAt int // offset at which Read returns errInjected (-1: never)
	t      *core.Tape
	whole  bool // deliver as much as asked (no chunking)
	chunks []int
	zero   int
	// eofWithData: the read that delivers the last byte of the stream also returns io.EOF
	eofWithData bool
}

func (r *simReader) Read(p []byte) (int, error) {
	limit := len(r.data)
	if r.eofAt >= 0 && r.eofAt < limit {
		limit = r.eofAt
	}
	if r.failAt >= 0 && r.off >= r.failAt {
		return 0, errInjected
	}
	if r.failAt >= 0 && r.failAt < limit {
		limit = r.failAt
	}
	avail := limit - r.off
	if avail <= 0 {
		if r.failAt >= 0 && r.off >= r.failAt {
			return 0, errInjected
		}
		return 0, io.EOF
	}
	n := len(p)
	if n > avail {
		n = avail
	}
	if !r.whole && n > 0 {
		switch r.t.Pick("stream.chunk", []int{4, 3, 2, 1}) {
		case 1:
			n = 1
		case 2:
			n = 1 + r.t.Intn("stream.chunk", n)
		case 3:
			if r.zero < 3 { // a zero-length read with a nil error is legal (io.Reader), if discouraged
				r.zero++
				r.chunks = append(r.chunks, 0)
				return 0, nil
			}
		}
	}
	copy(p, r.data[r.off:r.off+n])
	r.off += n
	r.chunks = append(r.chunks, n)
	if r.eofWithData && r.off == len(r.data) {
		// io.Reader allows the final bytes and io.EOF in the same call (iotest.DataErrReader,
		// HTTP bodies of known length, …)
		r.chunks = append(r.chunks, -1)
		return n, io.EOF
	}
	return n, nil
}

// shortWriter accepts at most `room` bytes in total and then reports io.ErrShortWrite.
type shortWriter struct {
	buf  bytes.Buffer
	room int
}

func (w *shortWriter) Write(p []byte) (int, error) {
	if w.room < 0 {
		return w.buf.Write(p)
	}
	if len(p) <= w.room {
		w.room -= len(p)
		return w.buf.Write(p)
	}
	n := w.room
	w.buf.Write(p[:n])
	w.room = 0
	return n, io.ErrShortWrite
}

// ---------------------------------------------------------------- C03: framing and byte identity on a chunked stream

func (Engine) RunOne(t *core.Tape, prop, tier string, info *core.RunInfo) *core.Violation {
	if prop == "C04" {
		return runC04(t, tier, info)
	}
	return runC03(t, tier, info)
}

func pickGroup(t *core.Tape, tier string) *grp {
	gs := groupList()
	for {
		gr := gs[t.Intn("cfg.group", len(gs))]
		if gr.slow && tier != "thorough" && !t.Bool("cfg.group", 150) {
			continue
		}
		return gr
	}
}

func runC03(t *core.Tape, tier string, info *core.RunInfo) *core.Violation {
	gr := pickGroup(t, tier)
	g := gr.g
	vs := pool(gr, t)
	info.Config["group"] = gr.name
	for n := range uncalibrated {
		info.Probe("membership-model-uncalibrated:" + n)
	}
	nSeq := 1 + t.Intn("cfg", 12)
	seq := make([]val, nSeq)
	var kinds []string
	for i := range seq {
		seq[i] = vs[t.Intn("cfg.seq", len(vs))]
		kinds = append(kinds, seq[i].kind)
	}
	info.Config["sequence"] = strings.Join(kinds, ",")
	mode := t.Intn("cfg.mode", 3) // 0 MarshalTo/UnmarshalFrom, 1 hex helpers, 2 suite.Write/Read
	enc, hasEnc := g.(kyber.Encoding)
	if mode == 2 && !hasEnc {
		mode = 0
	}
	info.Config["api"] = []string{"MarshalTo/UnmarshalFrom", "hex helpers", "suite.Write/Read"}[mode]

	// ---- sender ----
	var stream bytes.Buffer
	var expect [][]byte
	for i, v := range seq {
		b, err := v.marshal()
		if err != nil {
			return viol("C03", "encode", "marshalbinary-error/"+gr.name, "MarshalBinary(%s): %v", v.kind, err)
		}
		wantLen := g.ScalarLen()
		if v.isPoint() {
			wantLen = g.PointLen()
		}
		size := 0
		if v.isPoint() {
			size = v.p.MarshalSize()
		} else {
			size = v.s.MarshalSize()
		}
		if len(b) != wantLen || size != wantLen {
			return viol("C03", "length", "length-mismatch/"+gr.name, "%s: encoding has %d bytes, MarshalSize=%d, group advertises %d", v.kind, len(b), size, wantLen)
		}
		expect = append(expect, b)
		before := stream.Len()
		switch mode {
		case 0:
			var n int
			if v.isPoint() {
				n, err = v.p.MarshalTo(&stream)
			} else {
				n, err = v.s.MarshalTo(&stream)
			}
			if err != nil || n != len(b) {
				return viol("C03", "marshalto", "marshalto-count/"+gr.name, "MarshalTo(%s) returned n=%d err=%v, encoding has %d bytes", v.kind, n, err, len(b))
			}
		case 1:
			if v.isPoint() {
				err = kenc.WriteHexPoint(&stream, v.p)
			} else {
				err = kenc.WriteHexScalar(g, &stream, v.s)
			}
			if err != nil {
				return viol("C03", "hex", "writehex-error/"+gr.name, "WriteHex(%s): %v", v.kind, err)
			}
		case 2:
			if v.isPoint() {
				err = enc.Write(&stream, v.p)
			} else {
				err = enc.Write(&stream, v.s)
			}
			if err != nil {
				return viol("C03", "suite-write", "suite-write-error/"+gr.name, "suite.Write(%s): %v", v.kind, err)
			}
		}
		got := stream.Bytes()[before:]
		want := b
		if mode == 1 {
			want = []byte(fmt.Sprintf("%x", b))
		}
		if !bytes.Equal(got, want) {
			return viol("C03", "wire-bytes", "stream-bytes-differ-from-marshalbinary/"+gr.name, "value %d (%s): the stream carries %x, MarshalBinary gives %x", i, v.kind, got, want)
		}
		// encoding never changes the value encoded
		b2, _ := v.marshal()
		if !bytes.Equal(b, b2) {
			return viol("C03", "encode-is-pure", "second-encoding-differs/"+gr.name, "%s encodes differently the second time", v.kind)
		}
	}
	// a writer that runs out of room must surface as an error of MarshalTo
	if mode == 0 && t.Bool("cfg.short", 300) {
		v := seq[0]
		sw := &shortWriter{room: t.Intn("cfg.short", len(expect[0]))}
		var n int
		var err error
		if v.isPoint() {
			n, err = v.p.MarshalTo(sw)
		} else {
			n, err = v.s.MarshalTo(sw)
		}
		info.Fault("short-write")
		if err == nil {
			return viol("C03", "marshalto", "short-write-not-reported/"+gr.name, "MarshalTo(%s) into a writer with room for %d of %d bytes returned n=%d, err=nil", v.kind, sw.buf.Len(), len(expect[0]), n)
		}
	}

	// ---- stream -> receiver ----
	rd := &simReader{data: stream.Bytes(), eofAt: -1, failAt: -1, t: t, whole: t.Bool("cfg.whole", 150), eofWithData: t.Bool("cfg.eofdata", 300)}
	if rd.eofWithData {
		info.Faults["final-bytes-with-eof"]++
		info.NonTrivial = true
	}
	// a receiver either allocates a value per message or decodes every message into the same object (a
	// reused struct field, a loop variable): the result must not depend on what the object held before
	// (seed C03g: the bn254 G2 identity decoded into a used point kept the old z coordinate)
	reuse := t.Bool("cfg.reuse", 400)
	var rp kyber.Point
	var rs kyber.Scalar
	if reuse {
		info.Faults["receiver-object-reused"]++
		info.NonTrivial = true
	}
	newP := func() kyber.Point {
		if !reuse {
			return g.Point()
		}
		if rp == nil {
			// starts out holding some other value (taken from the pool: target groups have no Mul(s, nil))
			rp = g.Point().Null()
			for _, c := range vs {
				if c.isPoint() && c.kind != "identity" && c.kind != "p-p" {
					rp = c.p.Clone()
				}
			}
		}
		return rp
	}
	newS := func() kyber.Scalar {
		if !reuse {
			return g.Scalar()
		}
		if rs == nil {
			rs = g.Scalar().SetInt64(7)
		}
		return rs
	}
	for i, v := range seq {
		var dp kyber.Point
		var ds kyber.Scalar
		var err error
		var n int
		off0 := rd.off
		pn := core.Guard(func() {
			switch mode {
			case 0:
				if v.isPoint() {
					dp = newP()
					n, err = dp.UnmarshalFrom(rd)
				} else {
					ds = newS()
					n, err = ds.UnmarshalFrom(rd)
				}
			case 1:
				if v.isPoint() {
					dp, err = kenc.ReadHexPoint(g, rd)
				} else {
					ds, err = kenc.ReadHexScalar(g, rd)
				}
			case 2:
				if v.isPoint() {
					dp = newP()
					err = enc.Read(rd, dp)
				} else {
					ds = newS()
					err = enc.Read(rd, ds)
				}
			}
		})
		if pn != nil {
			return viol("C03", "totality", "decode-panic/"+gr.name, "decoding value %d (%s) from the stream panicked: %v | %s", i, v.kind, pn, core.LastStack())
		}
		info.Events++
		if err != nil {
			return viol("C03", "stream-decode", "chunked-read-fails/"+gr.name+"/"+info.Config["api"].(string), "value %d (%s) does not decode from a stream delivering chunks %v: %v", i, v.kind, tail(rd.chunks), err)
		}
		wantConsumed := len(expect[i])
		if mode == 1 {
			wantConsumed *= 2
		}
		if rd.off-off0 != wantConsumed || (mode == 0 && n != wantConsumed) {
			return viol("C03", "framing", "consumed-bytes/"+gr.name, "value %d (%s): decoder consumed %d bytes (reported %d), encoding has %d", i, v.kind, rd.off-off0, n, wantConsumed)
		}
		var rb []byte
		if v.isPoint() {
			if !dp.Equal(v.p) {
				return viol("C03", "round-trip", "decoded-not-equal/"+gr.name, "point %d (%s) decoded from the stream is not Equal to the original", i, v.kind)
			}
			rb, _ = dp.MarshalBinary()
		} else {
			if !ds.Equal(v.s) {
				return viol("C03", "round-trip", "decoded-not-equal/"+gr.name, "scalar %d (%s) decoded from the stream is not Equal to the original", i, v.kind)
			}
			rb, _ = ds.MarshalBinary()
		}
		if !bytes.Equal(rb, expect[i]) {
			return viol("C03", "canonical", "re-encoding-differs/"+gr.name, "value %d (%s): re-encoding %x differs from the original encoding %x", i, v.kind, rb, expect[i])
		}
	}
	nonWhole := false
	for _, c := range rd.chunks {
		if c == 0 || c == 1 {
			nonWhole = true
		}
	}
	if nonWhole || len(rd.chunks) > nSeq {
		info.NonTrivial = true
		info.Faults["chunked-delivery"]++
	}
	if rd.zero > 0 {
		info.Faults["zero-length-read"] += rd.zero
	}
	info.SigAdd("%s:%d:%s:%v", gr.name, mode, strings.Join(kinds, ","), rd.chunks)
	info.Logf("%s api=%d seq=%v chunks=%v", gr.name, mode, kinds, tail(rd.chunks))
	// Equal <=> identical encodings over the pool
	for i := range vs {
		for j := i + 1; j < len(vs); j++ {
			a, b := vs[i], vs[j]
			if a.isPoint() != b.isPoint() {
				continue
			}
			ab, _ := a.marshal()
			bb, _ := b.marshal()
			var eq bool
			if a.isPoint() {
				eq = a.p.Equal(b.p)
			} else {
				eq = a.s.Equal(b.s)
			}
			if eq != bytes.Equal(ab, bb) {
				return viol("C03", "equal-iff-bytes", "equal-vs-bytes/"+gr.name, "%s and %s: Equal=%v but encodings equal=%v", a.kind, b.kind, eq, bytes.Equal(ab, bb))
			}
		}
	}
	return nil
}

func tail(c []int) []int {
	if len(c) > 24 {
		return c[len(c)-24:]
	}
	return c
}

// ---------------------------------------------------------------- C04

type c04stats struct {
	decodes, accepted, rejected int
}

// useAccepted exercises an accepted point the way later protocol code would.
func useAccepted(gr *grp, p kyber.Point, raw []byte) (string, *core.Violation) {
	g := gr.g
	var reenc []byte
	if pn := core.Guard(func() {
		// a target group has no generator of its own in every implementation
		// (kilic's GT.Base is a documented "unsupported operation"): e(G1,G2) is the one
		// protocol code has
		var base kyber.Point
		if gr.which == 3 {
			base = gr.suite.Pair(gr.suite.G1().Point().Base(), gr.suite.G2().Point().Base())
		} else {
			base = g.Point().Base()
		}
		q := g.Point().Add(p, base)
		_ = g.Point().Sub(q, p)
		_ = g.Point().Neg(p)
		_ = g.Point().Mul(g.Scalar().SetInt64(2), p)
		_ = g.Point().Mul(g.Scalar().Neg(g.Scalar().One()), p)
		_ = p.Equal(g.Point().Null())
		_ = p.String()
		_ = p.Clone()
		// embedding is an optional capability ("unsupported operation" panics are documented for the
		// pairing groups): only where EmbedLen works, Data must - an error is fine, a panic is not (seed C04h)
		el := 0
		if core.Guard(func() { el = p.EmbedLen() }) == nil && el > 0 {
			_, _ = p.Data()
		}
		reenc, _ = p.MarshalBinary()
	}); pn != nil {
		return "", viol("C04", "usable", "accepted-point-panics-later/"+gr.name, "a point accepted from %x panicked when used afterwards: %v | %s", raw, pn, core.LastStack())
	}
	q := g.Point()
	var derr error
	if pn := core.Guard(func() { derr = q.UnmarshalBinary(reenc) }); pn != nil || derr != nil || !q.Equal(p) {
		return "", viol("C04", "re-decode", "re-encoding-does-not-decode-equal/"+gr.name, "accepted %x; its re-encoding %x decodes with err=%v panic=%v equal=%v", raw, reenc, derr, pn, derr == nil && pn == nil && q.Equal(p))
	}
	if gr.member != nil {
		if in, known := gr.member(reenc); known && !in {
			return "", viol("C04", "membership", "accepted-point-not-on-curve/"+gr.name, "decoding %x was accepted, but the point %x does not satisfy the curve equation (independent check)", raw, reenc)
		}
	}
	if gr.subgroup && gr.order != nil {
		if !ladderIsIdentity(g, p, gr.order) {
			return "", viol("C04", "membership", "accepted-point-not-in-subgroup/"+gr.name, "decoding %x was accepted, but order*P != O (double-and-add with the group's own Add)", raw)
		}
	}
	return string(reenc), nil
}

func runC04(t *core.Tape, tier string, info *core.RunInfo) *core.Violation {
	if t.Bool("cfg.composite", 350) {
		return runComposite(t, tier, info)
	}
	gr := pickGroup(t, tier)
	g := gr.g
	vs := pool(gr, t)
	v := vs[t.Intn("cfg.val", len(vs))]
	info.Config["group"], info.Config["value"] = gr.name, v.kind
	for n := range uncalibrated {
		info.Probe("membership-model-uncalibrated:" + n)
	}
	if gr.member != nil && v.isPoint() {
		info.Probe("independent-membership-check-active:" + gr.name)
	}
	if gr.subgroup && v.isPoint() {
		info.Probe("subgroup-ladder-check-active:" + gr.name)
	}
	info.FaultClass = "fault"
	info.NonTrivial = true
	enc, err := v.marshal()
	if err != nil {
		return viol("C04", "encode", "marshalbinary-error/"+gr.name, "%v", err)
	}
	L := len(enc)
	newV := func() (func(r io.Reader) (int, error), func(b []byte) error, func() any) {
		if v.isPoint() {
			p := g.Point()
			return p.UnmarshalFrom, p.UnmarshalBinary, func() any { return p }
		}
		s := g.Scalar()
		return s.UnmarshalFrom, s.UnmarshalBinary, func() any { return s }
	}
	// (a) EOF and a reader error at EVERY offset
	for k := 0; k < L; k++ {
		for _, mode := range []string{"eof", "error"} {
			rd := &simReader{data: enc, eofAt: -1, failAt: -1, t: t, whole: true}
			if mode == "eof" {
				rd.eofAt = k
			} else {
				rd.failAt = k
			}
			from, _, _ := newV()
			var n int
			var err error
			if pn := core.Guard(func() { n, err = from(rd) }); pn != nil {
				return viol("C04", "totality", "unmarshalfrom-panic/"+gr.name+"/"+mode, "%s at offset %d of a %d-byte %s: UnmarshalFrom panicked: %v | %s", mode, k, L, v.kind, pn, core.LastStack())
			}
			info.Events++
			if err == nil {
				return viol("C04", "stream-fault", "truncated-stream-accepted/"+gr.name+"/"+mode, "%s at offset %d of a %d-byte %s: UnmarshalFrom returned n=%d, err=nil", mode, k, L, v.kind, n)
			}
			info.Faults["stream-"+mode]++
		}
	}
	// (b) every single-bit flip
	verdict := make([]byte, 0, L*8)
	flips := L * 8
	sample := flips > 160*8
	nFlip := flips
	if sample {
		nFlip = 400
	}
	for f := 0; f < nFlip; f++ {
		bit := f
		if sample {
			bit = t.Intn("flip", flips)
		}
		b := kit.CopyBytes(enc)
		b[bit/8] ^= 1 << (bit % 8)
		_, ub, get := newV()
		var err error
		if pn := core.Guard(func() { err = ub(b) }); pn != nil {
			return viol("C04", "totality", "unmarshalbinary-panic/"+gr.name, "flipping bit %d of %s (%x): UnmarshalBinary panicked: %v | %s", bit, v.kind, enc, pn, core.LastStack())
		}
		info.Events++
		info.Faults["bit-flip"]++
		if err != nil {
			verdict = append(verdict, 'r')
			continue
		}
		verdict = append(verdict, 'a')
		if v.isPoint() {
			if _, vv := useAccepted(gr, get().(kyber.Point), b); vv != nil {
				return vv
			}
		} else {
			s := get().(kyber.Scalar)
			if pn := core.Guard(func() {
				_ = g.Scalar().Add(s, g.Scalar().One())
				_ = g.Scalar().Mul(s, s)
				if !s.Equal(g.Scalar().Zero()) {
					_ = g.Scalar().Inv(s)
				}
				_, _ = s.MarshalBinary()
				_ = s.String()
			}); pn != nil {
				return viol("C04", "usable", "accepted-scalar-panics-later/"+gr.name, "a scalar accepted from %x panicked when used: %v | %s", b, pn, core.LastStack())
			}
		}
	}
	// (c) structured corruptions produced by a hostile middlebox
	var cases [][]byte
	cases = append(cases, bytes.Repeat([]byte{0x00}, L), bytes.Repeat([]byte{0xff}, L), nil, []byte{}, enc[:L/2], append(kit.CopyBytes(enc), 0), append(kit.CopyBytes(enc), enc...))
	for k := 1; k <= 3 && k < L; k++ {
		cases = append(cases, enc[:L-k], append(kit.CopyBytes(enc), bytes.Repeat([]byte{0xa5}, k)...))
	}
	o := vs[t.Intn("cfg.val", len(vs))]
	if ob, err := o.marshal(); err == nil {
		sp := append(kit.CopyBytes(enc[:L/2]), ob[len(ob)/2:]...) // splice of two valid encodings
		cases = append(cases, sp)
	}
	for k := 0; k < 6; k++ {
		cases = append(cases, t.Bytes("garbage", L))
	}
	var modulusOf *big.Int // set when the scalar type is group/mod.Int (most groups)
	if !v.isPoint() {
		if mi, ok := v.s.(*mod.Int); ok && mi.M != nil {
			// the boundary of the range check: M itself, M+1 (refused), M-1 (valid), in the scalar's byte order.
			// mod.Int.UnmarshalBinary documents: "Returns an error if ... the contents of the buffer
			// represents an out-of-range integer."
			modulusOf = mi.M.ToBigInt()
			for _, d := range []int64{0, 1, -1} {
				x := new(big.Int).Add(modulusOf, big.NewInt(d))
				if x.BitLen() > 8*L {
					continue
				}
				b := x.FillBytes(make([]byte, L))
				if mi.BO == kyber.LittleEndian {
					for i, j := 0, len(b)-1; i < j; i, j = i+1, j-1 {
						b[i], b[j] = b[j], b[i]
					}
				}
				cases = append(cases, b)
			}
			info.Faults["scalar-at-the-modulus"] += 3
		}
	}
	if v.isPoint() && gr.which == 1 && strings.HasPrefix(gr.name, "bls-") {
		// on the curve, outside the prime-order subgroup, in both serialisations (seed C04f: a new
		// "also accept the uncompressed form" branch checked the curve equation only)
		c, u := offSubgroupBLSG1(t.Intn("val", 6))
		if c != nil {
			cases = append(cases, c, u)
			info.Faults["on-curve-off-subgroup"] += 2
		}
	}
	if v.isPoint() {
		nc := nonCanonical(gr, enc)
		cases = append(cases, nc...)
		if len(nc) > 0 {
			info.Faults["coordinate-plus-modulus"] += len(nc)
		}
	}
	// an encoding of the same length from another group
	for _, og := range groupList() {
		if og != gr && og.g.PointLen() == L && !og.slow {
			var b []byte
			var err error
			if try(func() { b, err = og.g.Point().Mul(og.g.Scalar().SetInt64(5), nil).MarshalBinary() }) && err == nil {
				cases = append(cases, b)
				break
			}
		}
	}
	for ci, b := range cases {
		b = append(make([]byte, 0, len(b)), b...) // exact capacity, as bytes off the wire
		_, ub, get := newV()
		var err error
		if pn := core.Guard(func() { err = ub(b) }); pn != nil {
			return viol("C04", "totality", "unmarshalbinary-panic/"+gr.name, "structured corruption %d (%d bytes: %x) of %s: UnmarshalBinary panicked: %v | %s", ci, len(b), b, v.kind, pn, core.LastStack())
		}
		info.Events++
		info.Faults["structured-corruption"]++
		if err != nil {
			verdict = append(verdict, 'r')
			// the same refused bytes decoded into a receiver that HELD a valid value: observation only
			_ = refusedIntoUsed(gr, v, b, info)
			continue
		}
		verdict = append(verdict, 'a')
		if v.isPoint() {
			if _, vv := useAccepted(gr, get().(kyber.Point), b); vv != nil {
				return vv
			}
		} else if modulusOf != nil && len(b) == L {
			x := kit.CopyBytes(b)
			if get().(kyber.Scalar).ByteOrder() == kyber.LittleEndian {
				for i, j := 0, len(x)-1; i < j; i, j = i+1, j-1 {
					x[i], x[j] = x[j], x[i]
				}
			}
			if new(big.Int).SetBytes(x).Cmp(modulusOf) >= 0 {
				return viol("C04", "range", "accepted-out-of-range-scalar/"+gr.name, "the %d-byte encoding %x (>= the modulus) was accepted as a scalar; mod.Int.UnmarshalBinary documents an error for out-of-range integers", L, b)
			}
		}
	}
	h := sha256.Sum256(verdict)
	info.SigAdd("%s:%s:%x", gr.name, v.kind, h[:8])
	info.Logf("%s %s len=%d: %d corruptions, verdicts %s…", gr.name, v.kind, L, len(verdict), string(verdict[:minInt(len(verdict), 40)]))
	acc := bytes.Count(verdict, []byte{'a'})
	info.Probes["corrupted-encodings-accepted"] += acc
	info.Probes["corrupted-encodings-rejected"] += len(verdict) - acc
	return nil
}

func minInt(a, b int) int {
	if a < b {
		return a
	}
	return b
}

// ---------------------------------------------------------------- composite messages

type composite struct {
	name  string
	valid []byte
	parse func(b []byte) error // must not panic; returns the verdict of the verifier/decoder
	// truncErr: every strict prefix must be an error (signatures, proofs, ciphertexts)
	truncErr bool
}

func composites(t *core.Tape) []composite {
	ed := kit.Ed()
	var cs []composite
	msg := t.Bytes("val", 1+t.Intn("val", 50))
	x := ed.Scalar().SetBytes(t.Bytes("val", 64))
	X := ed.Point().Mul(x, nil)
	if sig, err := schnorr.Sign(ed, x, msg); err == nil {
		cs = append(cs, composite{"schnorr-signature", sig, func(b []byte) error { return schnorr.Verify(ed, X, msg, b) }, true})
	}
	if e := eddsa.NewEdDSA(ed.XOF(t.Bytes("val", 32))); e != nil {
		if sig, err := e.Sign(msg); err == nil {
			cs = append(cs, composite{"eddsa-signature", sig, func(b []byte) error { return eddsa.Verify(e.Public, msg, b) }, true})
		}
	}
	bs := bn256.NewSuite()
	sch := bls.NewSchemeOnG1(bs)
	bx := bs.G2().Scalar().SetBytes(t.Bytes("val", 48))
	bX := bs.G2().Point().Mul(bx, nil)
	if sig, err := sch.Sign(bx, msg); err == nil {
		cs = append(cs, composite{"bls-signature-bn256", sig, func(b []byte) error { return sch.Verify(bX, msg, b) }, true})
	}
	// CoSi collective signature of three signers
	{
		privs, pubs := kit.KeyPairs(ed, t, "val", 3)
		var Vs []kyber.Point
		var vsec []kyber.Scalar
		var masks [][]byte
		for i := range privs {
			v, V := cosi.Commit(ed)
			m, _ := cosi.NewMask(ed, pubs, pubs[i])
			Vs, vsec, masks = append(Vs, V), append(vsec, v), append(masks, m.Mask())
		}
		V, Z, err := cosi.AggregateCommitments(ed, Vs, masks)
		if err == nil {
			m, _ := cosi.NewMask(ed, pubs, nil)
			_ = m.SetMask(Z)
			c, _ := cosi.Challenge(ed, V, m.AggregatePublic, msg)
			var rs []kyber.Scalar
			for i := range privs {
				r, _ := cosi.Response(ed, privs[i], vsec[i], c)
				rs = append(rs, r)
			}
			r, _ := cosi.AggregateResponses(ed, rs)
			if sig, err := cosi.Sign(ed, V, r, m); err == nil {
				cs = append(cs, composite{"cosi-signature", sig, func(b []byte) error { return cosi.Verify(ed, pubs, msg, b, cosi.NewThresholdPolicy(1)) }, true})
			}
		}
	}
	// hash proof of a representation statement
	{
		pred := proof.Rep("X", "x", "B")
		sval := map[string]kyber.Scalar{"x": x}
		pval := map[string]kyber.Point{"B": ed.Point().Base(), "X": X}
		if pf, err := proof.HashProve(ed, "wire", pred.Prover(ed, sval, pval, nil)); err == nil {
			cs = append(cs, composite{"hash-proof", pf, func(b []byte) error { return proof.HashVerify(ed, "wire", pred.Verifier(ed, pval), b) }, true})
		}
	}
	if ct, err := ecies.Encrypt(ed, X, msg, sha256.New); err == nil {
		cs = append(cs, composite{"ecies-ciphertext", ct, func(b []byte) error { _, err := ecies.Decrypt(ed, x, b, sha256.New); return err }, true})
	}
	// the same message types over other groups: their decoders differ in what they leave to the caller
	// (seed C04g: ecies.Decrypt delegated its length check to the point decoder, and the residue group's
	// decoder accepts short input)
	for _, og := range []struct {
		name string
		g    interface {
			kyber.Group
			kyber.Random
		}
	}{{"p256", p256.NewBlakeSHA256P256()}, {"qr512", p256.NewBlakeSHA256QR512()}, {"bn256-g1", bn256.NewSuiteG1()}} {
		og := og
		core.Guard(func() {
			xs := og.g.Scalar().SetBytes(t.Bytes("val", 48))
			Xs := og.g.Point().Mul(xs, nil)
			if ct, err := ecies.Encrypt(og.g, Xs, msg, sha256.New); err == nil {
				cs = append(cs, composite{"ecies-ciphertext-" + og.name, ct, func(b []byte) error { _, err := ecies.Decrypt(og.g, xs, b, sha256.New); return err }, true})
			}
			if sg, err := schnorr.Sign(og.g, xs, msg); err == nil {
				cs = append(cs, composite{"schnorr-signature-" + og.name, sg, func(b []byte) error { return schnorr.Verify(og.g, Xs, msg, b) }, true})
			}
		})
	}
	{
		privs, pubs := kit.KeyPairs(ed, t, "val", 3)
		if ct, err := anon.Encrypt(ed, msg, anon.Set(pubs)); err == nil {
			cs = append(cs, composite{"anon-ciphertext", ct, func(b []byte) error { _, err := anon.Decrypt(ed, b, anon.Set(pubs), 1, privs[1]); return err }, true})
		}
	}
	{
		privs, pubs := kit.KeyPairs(ed, t, "val", 4)
		if d, err := pvss.NewDealer(edwards25519.NewBlakeSHA256Ed25519(), privs[3], x, pubs[:3], 2); err == nil {
			if pd, err := d.PlaintextDeal(1); err == nil {
				if b, err := pd.Marshal(); err == nil {
					cs = append(cs, composite{"vss-pedersen-deal", b, func(b []byte) error {
						dd := &pvss.Deal{}
						if err := dd.Unmarshal(b, ed); err != nil {
							return err
						}
						// whoever parsed it goes on to use it
						_, _ = dd.Marshal()
						if dd.SecShare != nil && dd.SecShare.V != nil {
							_ = dd.SecShare.V.String()
						}
						return nil
					}, false})
				}
			}
		}
		if d, err := rvss.NewDealer(edwards25519.NewBlakeSHA256Ed25519(), privs[3], x, pubs[:3], 2); err == nil {
			if pd, err := d.PlaintextDeal(1); err == nil {
				if b, err := pd.Marshal(); err == nil {
					cs = append(cs, composite{"vss-rabin-deal", b, func(b []byte) error {
						dd := &rvss.Deal{}
						if err := dd.Unmarshal(b, ed); err != nil {
							return err
						}
						_, _ = dd.Marshal()
						return nil
					}, false})
				}
			}
		}
	}
	return cs
}

func runComposite(t *core.Tape, tier string, info *core.RunInfo) *core.Violation {
	cs := composites(t)
	c := cs[t.Intn("cfg.composite", len(cs))]
	info.Config["composite"] = c.name
	info.FaultClass = "fault"
	info.NonTrivial = true
	if err := c.parse(c.valid); err != nil {
		return viol("C04", "baseline", "valid-composite-rejected/"+c.name, "the untouched %s is rejected: %v", c.name, err)
	}
	L := len(c.valid)
	try1 := func(what string, b []byte, mustErr bool) *core.Violation {
		// bytes off the wire: exactly as long as they are (a sub-slice of the valid message would hide
		// reads past the end behind the spare capacity of the original buffer)
		b = append(make([]byte, 0, len(b)), b...)
		var err error
		if pn := core.Guard(func() { err = c.parse(b) }); pn != nil {
			return viol("C04", "totality", "composite-panic/"+c.name, "%s (%d of %d bytes): panicked: %v | %s", what, len(b), L, pn, core.LastStack())
		}
		info.Events++
		if mustErr && err == nil {
			return viol("C04", "malformed-is-error", "truncated-composite-accepted/"+c.name, "%s: a strict prefix of %d of %d bytes is accepted", what, len(b), L)
		}
		return nil
	}
	for k := 0; k < L; k++ {
		if v := try1(fmt.Sprintf("truncation to %d bytes", k), c.valid[:k], c.truncErr); v != nil {
			return v
		}
		info.Faults["composite-truncation"]++
	}
	flips := L * 8
	nFlip := flips
	if flips > 200*8 {
		nFlip = 500
	}
	for f := 0; f < nFlip; f++ {
		bit := f
		if nFlip != flips {
			bit = t.Intn("flip", flips)
		}
		b := kit.CopyBytes(c.valid)
		b[bit/8] ^= 1 << (bit % 8)
		if v := try1(fmt.Sprintf("bit %d flipped", bit), b, false); v != nil {
			return v
		}
		info.Faults["composite-bit-flip"]++
	}
	for k := 1; k <= 8; k++ {
		if v := try1("extension", append(kit.CopyBytes(c.valid), t.Bytes("garbage", k)...), false); v != nil {
			return v
		}
	}
	for _, fill := range []byte{0x00, 0xff} {
		if v := try1("constant fill", bytes.Repeat([]byte{fill}, L), false); v != nil {
			return v
		}
	}
	for k := 0; k < 12; k++ {
		if v := try1("random bytes", t.Bytes("garbage", t.Intn("garbage", 2*L+40)), false); v != nil {
			return v
		}
	}
	info.Faults["composite-structured"] += 22
	info.SigAdd("%s:%d", c.name, L)
	info.Logf("composite %s len=%d enumerated", c.name, L)
	return nil
}

// prefixStream is a key stream whose first bytes are fixed, followed by a pseudo-random tail.
type prefixStream struct {
	prefix []byte
	tail   kyber.XOF
	used   int
}

func (p *prefixStream) XORKeyStream(dst, src []byte) {
	for i := range src {
		var b byte
		if p.used < len(p.prefix) {
			b = p.prefix[p.used]
		} else {
			var one [1]byte
			_, _ = p.tail.Read(one[:])
			b = one[0]
		}
		p.used++
		dst[i] = src[i] ^ b
	}
}

// refusedIntoUsed decodes refused bytes into a receiver that holds a copy of the valid value v and
// looks at what the receiver is afterwards. OBSERVATION ONLY (probes): on the pinned tree 21 of the 24
// group instances leave a receiver that no longer encodes to something decodable (or that panics when
// used) after a refused decode - the usual Go convention that a failed Unmarshal leaves the receiver
// unspecified. C03 speaks of values produced by the API's constructors and arithmetic; it makes no
// promise about a receiver after an error, so seed C03h (P-256 joins the others) is not a violation
// the checks may raise (DESIGN 11, wave 5).
func refusedIntoUsed(gr *grp, v val, b []byte, info *core.RunInfo) *core.Violation {
	g := gr.g
	if v.isPoint() {
		r := v.p.Clone()
		var err error
		if pn := core.Guard(func() { err = r.UnmarshalBinary(b) }); pn != nil || err == nil {
			return nil // the panic / the acceptance is judged by the fresh-receiver path
		}
		var enc []byte
		var merr, derr error
		q := g.Point()
		if pn := core.Guard(func() {
			enc, merr = r.MarshalBinary()
			if merr == nil {
				derr = q.UnmarshalBinary(enc)
			}
			_ = g.Point().Add(r, r)
			_ = g.Point().Neg(r)
		}); pn != nil {
			info.Probe("receiver-unusable-after-refused-decode:" + gr.name)
			return nil
		}
		if merr != nil || derr != nil {
			info.Probe("receiver-encoding-does-not-decode-after-refused-decode:" + gr.name)
			return nil
		}
		info.Probe("receiver-checked-after-refused-decode")
		return nil
	}
	r := v.s.Clone()
	var err error
	if pn := core.Guard(func() { err = r.UnmarshalBinary(b) }); pn != nil || err == nil {
		return nil
	}
	var enc []byte
	var merr, derr error
	q := g.Scalar()
	if pn := core.Guard(func() {
		enc, merr = r.MarshalBinary()
		if merr == nil {
			derr = q.UnmarshalBinary(enc)
		}
		_ = g.Scalar().Add(r, r)
	}); pn != nil {
		info.Probe("receiver-unusable-after-refused-decode:" + gr.name)
		return nil
	}
	if merr != nil || derr != nil {
		info.Probe("receiver-encoding-does-not-decode-after-refused-decode:" + gr.name)
		return nil
	}
	return nil
}
