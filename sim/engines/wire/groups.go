package wire

import (
	"math/big"
	"strings"

	"go.dedis.ch/kyber/v4"
	"go.dedis.ch/kyber/v4/group/edwards25519"
	"go.dedis.ch/kyber/v4/group/edwards25519vartime"
	"go.dedis.ch/kyber/v4/group/p256"
	"go.dedis.ch/kyber/v4/pairing"
	circl "go.dedis.ch/kyber/v4/pairing/bls12381/circl"
	gnark "go.dedis.ch/kyber/v4/pairing/bls12381/gnark"
	kilic "go.dedis.ch/kyber/v4/pairing/bls12381/kilic"
	"go.dedis.ch/kyber/v4/pairing/bn254"
	"go.dedis.ch/kyber/v4/pairing/bn256"
)

// grp describes one exposed group instance.
type grp struct {
	name string
	g    kyber.Group
	// member is an independent membership test (math/big) on the canonical encoding of an
	// accepted point; known=false when the harness has no independent test for this group.
	member func(enc []byte) (ok, known bool)
	// subgroup: the group promises prime-order subgroup validation (BLS12-381 G1/G2, residue group);
	// checked with a double-and-add ladder that uses only the group's Add.
	subgroup bool
	order    *big.Int
	suite    pairing.Suite // for GT value construction
	which    int           // 1,2,3 = G1,G2,GT of a pairing suite
	slow     bool
	// field model of encodings made of big-endian coordinates of clen bytes after a prefix
	// (P-256, BN G1/G2/GT): used to build non-canonical "coordinate + modulus" encodings;
	// wa, wb: short Weierstrass coefficients when the encoding is (x, y) of such a curve
	fp, wa, wb   *big.Int
	prefix, clen int
}

// nonCanonical returns encodings that differ from enc by adding the field modulus (once, twice)
// to one coordinate, where the sum still fits the coordinate's width; for (x, y) curves it adds
// the same variants of a point with a very small x (for P-256 only one point in 2^32 has a
// coordinate small enough for the sum to fit, so a random point never exercises the path).
func nonCanonical(gr *grp, enc []byte) [][]byte {
	if gr.fp == nil || gr.clen == 0 || len(enc) < gr.prefix+gr.clen {
		return nil
	}
	var out [][]byte
	variants := func(e []byte) {
		body := e[gr.prefix:]
		for c := 0; (c+1)*gr.clen <= len(body); c++ {
			v := new(big.Int).SetBytes(body[c*gr.clen : (c+1)*gr.clen])
			for k := 1; k <= 2; k++ {
				v.Add(v, gr.fp)
				if v.BitLen() > 8*gr.clen {
					break
				}
				b := append([]byte{}, e...)
				v.FillBytes(b[gr.prefix+c*gr.clen : gr.prefix+(c+1)*gr.clen])
				out = append(out, b)
			}
		}
	}
	variants(enc)
	if gr.wb != nil && new(big.Int).And(gr.fp, big.NewInt(3)).Int64() == 3 {
		e := new(big.Int).Rsh(new(big.Int).Add(gr.fp, big.NewInt(1)), 2)
		for x, found := int64(1), 0; x < 64 && found < 2; x++ {
			X := big.NewInt(x)
			rhs := new(big.Int).Exp(X, big.NewInt(3), gr.fp)
			rhs.Add(rhs, new(big.Int).Mul(gr.wa, X)).Add(rhs, gr.wb).Mod(rhs, gr.fp)
			y := new(big.Int).Exp(rhs, e, gr.fp)
			if new(big.Int).Exp(y, big.NewInt(2), gr.fp).Cmp(rhs) != 0 {
				continue
			}
			found++
			b := append([]byte{}, enc[:gr.prefix]...)
			b = append(b, X.FillBytes(make([]byte, gr.clen))...)
			b = append(b, y.FillBytes(make([]byte, gr.clen))...)
			out = append(out, b) // the small-x point itself (valid)
			variants(b)
		}
	}
	return out
}

func bi(s string) *big.Int { v, _ := new(big.Int).SetString(s, 10); return v }

var (
	pEd = new(big.Int).Sub(new(big.Int).Lsh(big.NewInt(1), 255), big.NewInt(19))
	dEd = func() *big.Int { // -121665/121666 mod p
		inv := new(big.Int).ModInverse(big.NewInt(121666), pEd)
		d := new(big.Int).Mul(big.NewInt(-121665), inv)
		return d.Mod(d, pEd)
	}()
	lEd   = bi("7237005577332262213973186563042994240857116359379907606001950938285454250989")
	pP256 = bi("115792089210356248762697446949407573530086143415290314195533631308867097853951")
	bP256 = func() *big.Int {
		v, _ := new(big.Int).SetString("5ac635d8aa3a93e7b3ebbd55769886bc651d06b0cc53b0f63bce3c3e27d2604b", 16)
		return v
	}()
	nP256  = bi("115792089210356248762697446949407573529996955224135760342422259061068512044369")
	pBN256 = bi("65000549695646603732796438742359905742825358107623003571877145026864184071783")
	nBN256 = bi("65000549695646603732796438742359905742570406053903786389881062969044166799969")
	pBN254 = bi("21888242871839275222246405745257275088696311157297823662689037894645226208583")
	nBN254 = bi("21888242871839275222246405745257275088548364400416034343698204186575808495617")
	rBLS   = bi("52435875175126190479447740508185965837690552500527637822603658699938581184513")
)

func isSquare(v, p *big.Int) bool {
	v = new(big.Int).Mod(v, p)
	if v.Sign() == 0 {
		return true
	}
	e := new(big.Int).Rsh(new(big.Int).Sub(p, big.NewInt(1)), 1)
	return new(big.Int).Exp(v, e, p).Cmp(big.NewInt(1)) == 0
}

// Ed25519: -x^2 + y^2 = 1 + d x^2 y^2; from the encoding (y little-endian, sign bit on top):
// x^2 = (y^2-1)/(d y^2+1) must be a square.
func memberEd25519(enc []byte) (bool, bool) {
	if len(enc) != 32 {
		return false, true
	}
	be := make([]byte, 32)
	for i := range enc {
		be[31-i] = enc[i]
	}
	be[0] &= 0x7f
	y := new(big.Int).SetBytes(be)
	y.Mod(y, pEd)
	y2 := new(big.Int).Mul(y, y)
	num := new(big.Int).Sub(y2, big.NewInt(1))
	den := new(big.Int).Mul(dEd, y2)
	den.Add(den, big.NewInt(1)).Mod(den, pEd)
	if den.Sign() == 0 {
		return false, true
	}
	x2 := num.Mul(num, new(big.Int).ModInverse(den, pEd))
	return isSquare(x2, pEd), true
}

func memberWeierstrass(p, a, b *big.Int, prefix int) func(enc []byte) (bool, bool) {
	return func(enc []byte) (bool, bool) {
		enc = enc[prefix:]
		n := len(enc) / 2
		x, y := new(big.Int).SetBytes(enc[:n]), new(big.Int).SetBytes(enc[n:])
		if x.Sign() == 0 && y.Sign() == 0 {
			return true, true // identity encoding
		}
		if x.Cmp(p) >= 0 || y.Cmp(p) >= 0 {
			return false, true
		}
		l := new(big.Int).Mul(y, y)
		l.Mod(l, p)
		r := new(big.Int).Mul(x, x)
		r.Mul(r, x)
		r.Add(r, new(big.Int).Mul(a, x)).Add(r, b).Mod(r, p)
		return l.Cmp(r) == 0, true
	}
}

// Fp2 = Fp[i]/(i^2+1); an element is (re, im).
type fp2 struct{ re, im *big.Int }

func f2mul(a, b fp2, p *big.Int) fp2 {
	re := new(big.Int).Sub(new(big.Int).Mul(a.re, b.re), new(big.Int).Mul(a.im, b.im))
	im := new(big.Int).Add(new(big.Int).Mul(a.re, b.im), new(big.Int).Mul(a.im, b.re))
	return fp2{re.Mod(re, p), im.Mod(im, p)}
}
func f2add(a, b fp2, p *big.Int) fp2 {
	re, im := new(big.Int).Add(a.re, b.re), new(big.Int).Add(a.im, b.im)
	return fp2{re.Mod(re, p), im.Mod(im, p)}
}
func f2inv(a fp2, p *big.Int) fp2 {
	n := new(big.Int).Add(new(big.Int).Mul(a.re, a.re), new(big.Int).Mul(a.im, a.im))
	n.Mod(n, p)
	ni := new(big.Int).ModInverse(n, p)
	re := new(big.Int).Mul(a.re, ni)
	im := new(big.Int).Mul(new(big.Int).Neg(a.im), ni)
	return fp2{re.Mod(re, p), im.Mod(im, p)}
}
func f2eq(a, b fp2) bool { return a.re.Cmp(b.re) == 0 && a.im.Cmp(b.im) == 0 }

// memberTwist: y^2 = x^3 + 3/xi over Fp2, encoding = x.im || x.re || y.im || y.re (big-endian),
// xi = xiRe + i. Calibrated on honest points before it is trusted (see calibrate).
func memberTwist(p *big.Int, xiRe int64) func(enc []byte) (bool, bool) {
	xi := fp2{big.NewInt(xiRe), big.NewInt(1)}
	b := f2mul(fp2{big.NewInt(3), big.NewInt(0)}, f2inv(xi, p), p)
	return func(enc []byte) (bool, bool) {
		n := len(enc) / 4
		c := make([]*big.Int, 4)
		zero := true
		for i := range c {
			c[i] = new(big.Int).SetBytes(enc[i*n : (i+1)*n])
			if c[i].Sign() != 0 {
				zero = false
			}
			if c[i].Cmp(p) >= 0 {
				return false, true
			}
		}
		if zero {
			return true, true
		}
		x, y := fp2{c[1], c[0]}, fp2{c[3], c[2]}
		l := f2mul(y, y, p)
		r := f2add(f2mul(f2mul(x, x, p), x, p), b, p)
		return f2eq(l, r), true
	}
}

// ladderIsIdentity computes order*P with a double-and-add ladder that uses only Add/Null/Equal.
func ladderIsIdentity(g kyber.Group, P kyber.Point, order *big.Int) bool {
	acc := g.Point().Null()
	for i := order.BitLen() - 1; i >= 0; i-- {
		acc = g.Point().Add(acc, acc)
		if order.Bit(i) == 1 {
			acc = g.Point().Add(acc, P)
		}
	}
	return acc.Equal(g.Point().Null())
}

func allGroups() []*grp {
	var gs []*grp
	gs = append(gs, &grp{name: "ed25519", g: edwards25519.NewBlakeSHA256Ed25519(), member: memberEd25519, order: lEd})
	gs = append(gs, &grp{name: "ed25519-vartime-suite", g: edwards25519vartime.NewBlakeSHA256Ed25519(false), member: memberEd25519, order: lEd})
	gs = append(gs, &grp{name: "vartime-proj-ed25519", g: new(edwards25519vartime.ProjectiveCurve).Init(edwards25519vartime.ParamEd25519(), false), member: memberEd25519, order: lEd})
	gs = append(gs, &grp{name: "vartime-ext-ed25519", g: new(edwards25519vartime.ExtendedCurve).InitCurve(edwards25519vartime.ParamEd25519(), false), member: memberEd25519, order: lEd})
	gs = append(gs, &grp{name: "vartime-ext-1174", g: new(edwards25519vartime.ExtendedCurve).InitCurve(edwards25519vartime.Param1174(), false)})
	gs = append(gs, &grp{name: "vartime-proj-e382", g: new(edwards25519vartime.ProjectiveCurve).Init(edwards25519vartime.ParamE382(), false), slow: true})
	gs = append(gs, &grp{name: "vartime-ext-41417", g: new(edwards25519vartime.ExtendedCurve).InitCurve(edwards25519vartime.Param41417(), false), slow: true})
	gs = append(gs, &grp{name: "vartime-ext-e521", g: new(edwards25519vartime.ExtendedCurve).InitCurve(edwards25519vartime.ParamE521(), false), slow: true})
	gs = append(gs, &grp{name: "p256", g: p256.NewBlakeSHA256P256(), member: memberWeierstrass(pP256, big.NewInt(-3), bP256, 1), order: nP256, fp: pP256, wa: big.NewInt(-3), wb: bP256, prefix: 1, clen: 32})
	gs = append(gs, &grp{name: "qr512", g: p256.NewBlakeSHA256QR512(), subgroup: true})
	add := func(prefix string, s pairing.Suite, m1, m2 func([]byte) (bool, bool), order *big.Int, sub bool) {
		gs = append(gs, &grp{name: prefix + "-g1", g: s.G1(), member: m1, order: order, subgroup: sub, suite: s, which: 1})
		gs = append(gs, &grp{name: prefix + "-g2", g: s.G2(), member: m2, order: order, subgroup: sub, suite: s, which: 2})
		gs = append(gs, &grp{name: prefix + "-gt", g: s.GT(), suite: s, which: 3, order: order})
	}
	add("bn256", bn256.NewSuite(), memberWeierstrass(pBN256, big.NewInt(0), big.NewInt(3), 0), memberTwist(pBN256, 3), nBN256, false)
	add("bn254", bn254.NewSuite(), memberWeierstrass(pBN254, big.NewInt(0), big.NewInt(3), 0), memberTwist(pBN254, 9), nBN254, false)
	for _, gr := range gs {
		var fp *big.Int
		switch {
		case strings.HasPrefix(gr.name, "bn256-"):
			fp = pBN256
		case strings.HasPrefix(gr.name, "bn254-"):
			fp = pBN254
		default:
			continue
		}
		gr.fp, gr.clen = fp, 32
		if gr.which == 1 {
			gr.wa, gr.wb = big.NewInt(0), big.NewInt(3)
		}
	}
	add("bls-kilic", kilic.NewBLS12381Suite(), nil, nil, rBLS, true)
	add("bls-circl", circl.NewSuite(), nil, nil, rBLS, true)
	add("bls-gnark", gnark.NewSuite(), nil, nil, rBLS, true)
	return gs
}

var pBLS, _ = new(big.Int).SetString("1a0111ea397fe69a4b1ba7b6434bacd764774b84f38512bf6730d2a0f6b0f6241eabfffeb153ffffb9feffffffffaaab", 16)

// offSubgroupBLSG1 returns encodings (compressed, 48 bytes; uncompressed, 96 bytes) of points that ARE
// on the BLS12-381 curve y^2 = x^3 + 4 but (with probability 1 - 2^-125) outside the prime-order
// subgroup G1: small x coordinates, y by square root (p = 3 mod 4). Format: the zcash serialisation
// (bit 7 compressed, bit 6 infinity, bit 5 sign of y).
func offSubgroupBLSG1(k int) (compressed, uncompressed []byte) {
	e := new(big.Int).Rsh(new(big.Int).Add(pBLS, big.NewInt(1)), 2)
	found := 0
	for x := int64(1); x < 200; x++ {
		X := big.NewInt(x)
		rhs := new(big.Int).Exp(X, big.NewInt(3), pBLS)
		rhs.Add(rhs, big.NewInt(4)).Mod(rhs, pBLS)
		y := new(big.Int).Exp(rhs, e, pBLS)
		if new(big.Int).Exp(y, big.NewInt(2), pBLS).Cmp(rhs) != 0 {
			continue
		}
		if found < k {
			found++
			continue
		}
		xb, yb := X.FillBytes(make([]byte, 48)), y.FillBytes(make([]byte, 48))
		uncompressed = append(append([]byte{}, xb...), yb...)
		compressed = append([]byte{}, xb...)
		compressed[0] |= 0x80
		half := new(big.Int).Rsh(pBLS, 1)
		if y.Cmp(half) > 0 {
			compressed[0] |= 0x20
		}
		return
	}
	return nil, nil
}
