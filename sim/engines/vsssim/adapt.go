package vsssim

import (
	"go.dedis.ch/kyber/v4"
	"go.dedis.ch/kyber/v4/share"
	pvss "go.dedis.ch/kyber/v4/share/vss/pedersen"
	rvss "go.dedis.ch/kyber/v4/share/vss/rabin"
	"go.dedis.ch/kyber/v4/sign/schnorr"

	"verif/sim/kit"
)

// Neutral wire forms: everything that crosses a node boundary is bytes.
type Deal struct {
	Sid     []byte
	SecI    uint32
	SecV    []byte
	RndI    uint32 // rabin only
	RndV    []byte // rabin only
	T       uint32
	Commits [][]byte
}

func (d *Deal) clone() *Deal {
	if d == nil {
		return nil
	}
	c := *d
	c.Sid = kit.CopyBytes(d.Sid)
	c.SecV = kit.CopyBytes(d.SecV)
	c.RndV = kit.CopyBytes(d.RndV)
	c.Commits = make([][]byte, len(d.Commits))
	for i := range d.Commits {
		c.Commits[i] = kit.CopyBytes(d.Commits[i])
	}
	return &c
}

type Enc struct {
	DH       []byte
	Sig      []byte
	Cipher   []byte
	kind     string // harness provenance: what the dealer did for this recipient
	forIdx   int    // verifier the dealer addressed
	encFor   int    // verifier whose key can decrypt it
	plainIdx uint32 // share index inside the plaintext
}

type Resp struct {
	Sid      []byte
	Index    uint32
	Approved bool
	Sig      []byte
	auth     bool // harness knowledge: signed by Index's key over exactly these fields
	kind     string
}

type Just struct {
	Sid   []byte
	Index uint32
	Deal  *Deal
	Sig   []byte
	kind  string
}

func cloneAny(x any) any {
	switch m := x.(type) {
	case *Enc:
		c := *m
		c.DH, c.Sig, c.Cipher = kit.CopyBytes(m.DH), kit.CopyBytes(m.Sig), kit.CopyBytes(m.Cipher)
		return &c
	case *Resp:
		c := *m
		c.Sid, c.Sig = kit.CopyBytes(m.Sid), kit.CopyBytes(m.Sig)
		return &c
	case *Just:
		c := *m
		c.Sid, c.Sig = kit.CopyBytes(m.Sid), kit.CopyBytes(m.Sig)
		c.Deal = m.Deal.clone()
		return &c
	}
	return x
}

func pb(p kyber.Point) []byte  { b, _ := p.MarshalBinary(); return b }
func sb(s kyber.Scalar) []byte { b, _ := s.MarshalBinary(); return b }
func pts(g kyber.Group, bs [][]byte) ([]kyber.Point, error) {
	out := make([]kyber.Point, len(bs))
	for i, b := range bs {
		p := g.Point()
		if err := p.UnmarshalBinary(b); err != nil {
			return nil, err
		}
		out[i] = p
	}
	return out, nil
}
func sc(g kyber.Group, b []byte) (kyber.Scalar, error) {
	s := g.Scalar()
	err := s.UnmarshalBinary(b)
	return s, err
}

type dealerObj interface {
	Enc(i int) (*Enc, error)
	Plain(i int) *Deal
	Custom(i int, d *Deal, raw []byte, signer kyber.Scalar) (*Enc, error)
	ProcessResponse(r *Resp) (*Just, error)
	Certified() bool
	SecretCommit() kyber.Point
	Commits() []kyber.Point
	SetTimeout()
	SessionID() []byte
}

type verifierObj interface {
	ProcessEnc(e *Enc) (*Resp, error)
	ProcessResponse(r *Resp) error
	ProcessJust(j *Just) error
	Certified() bool
	Deal() *Deal
	SetTimeout()
}

type variant interface {
	Name() string
	NewDealer(long, secret kyber.Scalar, verifiers []kyber.Point, t uint32) (dealerObj, error)
	NewVerifier(long kyber.Scalar, dealer kyber.Point, verifiers []kyber.Point) (verifierObj, error)
	Recover(deals []*Deal, n, t uint32) (kyber.Scalar, error)
	Unmarshal(raw []byte) error // Deal.Unmarshal on untrusted bytes (C04)
	Decode(raw []byte) *Deal    // what a plaintext decodes to (nil if it does not)
	SignResp(r *Resp, key kyber.Scalar)
	SignJust(j *Just, key kyber.Scalar) error
}

// ---------------- pedersen ----------------

type ped struct{}

func (ped) Name() string { return "pedersen" }

func pedDealOut(d *pvss.Deal) *Deal {
	if d == nil {
		return nil
	}
	o := &Deal{Sid: kit.CopyBytes(d.SessionID), T: d.T}
	if d.SecShare != nil {
		o.SecI = d.SecShare.I
		o.SecV = sb(d.SecShare.V)
	}
	for _, c := range d.Commitments {
		o.Commits = append(o.Commits, pb(c))
	}
	return o
}

func pedDealIn(d *Deal) (*pvss.Deal, error) {
	g := kit.Ed()
	cs, err := pts(g, d.Commits)
	if err != nil {
		return nil, err
	}
	v, err := sc(g, d.SecV)
	if err != nil {
		return nil, err
	}
	return &pvss.Deal{SessionID: kit.CopyBytes(d.Sid), SecShare: &share.PriShare{I: d.SecI, V: v}, T: d.T, Commitments: cs}, nil
}

type pedDealer struct{ d *pvss.Dealer }

func (ped) NewDealer(long, secret kyber.Scalar, verifiers []kyber.Point, t uint32) (dealerObj, error) {
	d, err := pvss.NewDealer(kit.Ed(), long, secret, verifiers, t)
	if err != nil {
		return nil, err
	}
	return &pedDealer{d}, nil
}
func pedEncOut(e *pvss.EncryptedDeal) *Enc {
	return &Enc{DH: kit.CopyBytes(e.DHKey), Sig: kit.CopyBytes(e.Signature), Cipher: kit.CopyBytes(e.Cipher)}
}
func (p *pedDealer) Enc(i int) (*Enc, error) {
	e, err := p.d.EncryptedDeal(i)
	if err != nil {
		return nil, err
	}
	return pedEncOut(e), nil
}
func (p *pedDealer) Plain(i int) *Deal {
	d, err := p.d.PlaintextDeal(i)
	if err != nil {
		return nil
	}
	return pedDealOut(d)
}
func (p *pedDealer) Custom(i int, d *Deal, raw []byte, signer kyber.Scalar) (*Enc, error) {
	var pd *pvss.Deal
	if raw == nil {
		var err error
		if pd, err = pedDealIn(d); err != nil {
			return nil, err
		}
	}
	e, err := p.d.VerifEncryptDeal(i, pd, raw, signer)
	if err != nil {
		return nil, err
	}
	return pedEncOut(e), nil
}
func (p *pedDealer) ProcessResponse(r *Resp) (*Just, error) {
	j, err := p.d.ProcessResponse(&pvss.Response{SessionID: r.Sid, Index: r.Index, StatusApproved: r.Approved, Signature: r.Sig})
	if err != nil || j == nil {
		return nil, err
	}
	return &Just{Sid: kit.CopyBytes(j.SessionID), Index: j.Index, Deal: pedDealOut(j.Deal), Sig: kit.CopyBytes(j.Signature), kind: "correct"}, nil
}
func (p *pedDealer) Certified() bool           { return p.d.DealCertified() }
func (p *pedDealer) SecretCommit() kyber.Point { return p.d.SecretCommit() }
func (p *pedDealer) Commits() []kyber.Point    { return p.d.Commits() }
func (p *pedDealer) SetTimeout()               { p.d.SetTimeout() }
func (p *pedDealer) SessionID() []byte         { return p.d.SessionID() }
func (ped) SignJust(j *Just, key kyber.Scalar) error {
	pd, err := pedDealIn(j.Deal)
	if err != nil {
		return err
	}
	pj := &pvss.Justification{SessionID: j.Sid, Index: j.Index, Deal: pd}
	j.Sig, err = schnorrSign(key, pj.Hash(kit.Ed()))
	return err
}

type pedVerifier struct{ v *pvss.Verifier }

func (ped) NewVerifier(long kyber.Scalar, dealer kyber.Point, verifiers []kyber.Point) (verifierObj, error) {
	v, err := pvss.NewVerifier(kit.Ed(), long, dealer, verifiers)
	if err != nil {
		return nil, err
	}
	return &pedVerifier{v}, nil
}
func (p *pedVerifier) ProcessEnc(e *Enc) (*Resp, error) {
	r, err := p.v.ProcessEncryptedDeal(&pvss.EncryptedDeal{DHKey: e.DH, Signature: e.Sig, Cipher: e.Cipher})
	if err != nil || r == nil {
		return nil, err
	}
	return &Resp{Sid: kit.CopyBytes(r.SessionID), Index: r.Index, Approved: r.StatusApproved, Sig: kit.CopyBytes(r.Signature), auth: true, kind: "honest"}, nil
}
func (p *pedVerifier) ProcessResponse(r *Resp) error {
	return p.v.ProcessResponse(&pvss.Response{SessionID: r.Sid, Index: r.Index, StatusApproved: r.Approved, Signature: r.Sig})
}
func (p *pedVerifier) ProcessJust(j *Just) error {
	pd, err := pedDealIn(j.Deal)
	if err != nil {
		return err
	}
	return p.v.ProcessJustification(&pvss.Justification{SessionID: j.Sid, Index: j.Index, Deal: pd, Signature: j.Sig})
}
func (p *pedVerifier) Certified() bool { return p.v.DealCertified() }
func (p *pedVerifier) Deal() *Deal     { return pedDealOut(p.v.Deal()) }
func (p *pedVerifier) SetTimeout()     { p.v.SetTimeout() }
func (ped) Recover(deals []*Deal, n, t uint32) (kyber.Scalar, error) {
	var ds []*pvss.Deal
	for _, d := range deals {
		pd, err := pedDealIn(d)
		if err != nil {
			return nil, err
		}
		ds = append(ds, pd)
	}
	return pvss.RecoverSecret(kit.Ed(), ds, n, t)
}
func (ped) Decode(raw []byte) (out *Deal) {
	defer func() {
		if recover() != nil {
			out = nil
		}
	}()
	d := &pvss.Deal{}
	if err := d.Unmarshal(raw, kit.Ed()); err != nil || d.SecShare == nil || d.SecShare.V == nil {
		return nil
	}
	for _, c := range d.Commitments {
		if c == nil {
			return nil
		}
	}
	return pedDealOut(d)
}
func (ped) Unmarshal(raw []byte) error { return (&pvss.Deal{}).Unmarshal(raw, kit.Ed()) }
func (ped) SignResp(r *Resp, key kyber.Scalar) {
	pr := &pvss.Response{SessionID: r.Sid, Index: r.Index, StatusApproved: r.Approved}
	r.Sig, _ = schnorrSign(key, pr.Hash(kit.Ed()))
}

// ---------------- rabin ----------------

type rab struct{}

func (rab) Name() string { return "rabin" }

func rabDealOut(d *rvss.Deal) *Deal {
	if d == nil {
		return nil
	}
	o := &Deal{Sid: kit.CopyBytes(d.SessionID), T: d.T}
	if d.SecShare != nil {
		o.SecI, o.SecV = d.SecShare.I, sb(d.SecShare.V)
	}
	if d.RndShare != nil {
		o.RndI, o.RndV = d.RndShare.I, sb(d.RndShare.V)
	}
	for _, c := range d.Commitments {
		o.Commits = append(o.Commits, pb(c))
	}
	return o
}
func rabDealIn(d *Deal) (*rvss.Deal, error) {
	g := kit.Ed()
	cs, err := pts(g, d.Commits)
	if err != nil {
		return nil, err
	}
	v, err := sc(g, d.SecV)
	if err != nil {
		return nil, err
	}
	r, err := sc(g, d.RndV)
	if err != nil {
		return nil, err
	}
	return &rvss.Deal{SessionID: kit.CopyBytes(d.Sid), SecShare: &share.PriShare{I: d.SecI, V: v}, RndShare: &share.PriShare{I: d.RndI, V: r}, T: d.T, Commitments: cs}, nil
}

type rabDealer struct{ d *rvss.Dealer }

func (rab) NewDealer(long, secret kyber.Scalar, verifiers []kyber.Point, t uint32) (dealerObj, error) {
	d, err := rvss.NewDealer(kit.Ed(), long, secret, verifiers, t)
	if err != nil {
		return nil, err
	}
	return &rabDealer{d}, nil
}
func rabEncOut(e *rvss.EncryptedDeal) *Enc {
	return &Enc{DH: pb(e.DHKey), Sig: kit.CopyBytes(e.Signature), Cipher: kit.CopyBytes(e.Cipher)}
}
func (p *rabDealer) Enc(i int) (*Enc, error) {
	e, err := p.d.EncryptedDeal(i)
	if err != nil {
		return nil, err
	}
	return rabEncOut(e), nil
}
func (p *rabDealer) Plain(i int) *Deal {
	d, err := p.d.PlaintextDeal(i)
	if err != nil {
		return nil
	}
	return rabDealOut(d)
}
func (p *rabDealer) Custom(i int, d *Deal, raw []byte, signer kyber.Scalar) (*Enc, error) {
	var pd *rvss.Deal
	if raw == nil {
		var err error
		if pd, err = rabDealIn(d); err != nil {
			return nil, err
		}
	}
	e, err := p.d.VerifEncryptDeal(i, pd, raw, signer)
	if err != nil {
		return nil, err
	}
	return rabEncOut(e), nil
}
func (p *rabDealer) ProcessResponse(r *Resp) (*Just, error) {
	j, err := p.d.ProcessResponse(&rvss.Response{SessionID: r.Sid, Index: r.Index, Approved: r.Approved, Signature: r.Sig})
	if err != nil || j == nil {
		return nil, err
	}
	return &Just{Sid: kit.CopyBytes(j.SessionID), Index: j.Index, Deal: rabDealOut(j.Deal), Sig: kit.CopyBytes(j.Signature), kind: "correct"}, nil
}
func (p *rabDealer) Certified() bool           { return p.d.EnoughApprovals() && p.d.DealCertified() }
func (p *rabDealer) SecretCommit() kyber.Point { return p.d.SecretCommit() }
func (p *rabDealer) Commits() []kyber.Point    { return p.d.Commits() }
func (p *rabDealer) SetTimeout()               { p.d.SetTimeout() }
func (p *rabDealer) SessionID() []byte         { return p.d.SessionID() }
func (rab) SignJust(j *Just, key kyber.Scalar) error {
	pd, err := rabDealIn(j.Deal)
	if err != nil {
		return err
	}
	pj := &rvss.Justification{SessionID: j.Sid, Index: j.Index, Deal: pd}
	j.Sig, err = schnorrSign(key, pj.Hash(kit.Ed()))
	return err
}

type rabVerifier struct{ v *rvss.Verifier }

func (rab) NewVerifier(long kyber.Scalar, dealer kyber.Point, verifiers []kyber.Point) (verifierObj, error) {
	v, err := rvss.NewVerifier(kit.Ed(), long, dealer, verifiers)
	if err != nil {
		return nil, err
	}
	return &rabVerifier{v}, nil
}
func (p *rabVerifier) ProcessEnc(e *Enc) (*Resp, error) {
	dh := kit.Ed().Point()
	if err := dh.UnmarshalBinary(e.DH); err != nil {
		return nil, err
	}
	r, err := p.v.ProcessEncryptedDeal(&rvss.EncryptedDeal{DHKey: dh, Signature: e.Sig, Cipher: e.Cipher})
	if err != nil || r == nil {
		return nil, err
	}
	return &Resp{Sid: kit.CopyBytes(r.SessionID), Index: r.Index, Approved: r.Approved, Sig: kit.CopyBytes(r.Signature), auth: true, kind: "honest"}, nil
}
func (p *rabVerifier) ProcessResponse(r *Resp) error {
	return p.v.ProcessResponse(&rvss.Response{SessionID: r.Sid, Index: r.Index, Approved: r.Approved, Signature: r.Sig})
}
func (p *rabVerifier) ProcessJust(j *Just) error {
	pd, err := rabDealIn(j.Deal)
	if err != nil {
		return err
	}
	return p.v.ProcessJustification(&rvss.Justification{SessionID: j.Sid, Index: j.Index, Deal: pd, Signature: j.Sig})
}
func (p *rabVerifier) Certified() bool { return p.v.DealCertified() }
func (p *rabVerifier) Deal() *Deal     { return rabDealOut(p.v.Deal()) }
func (p *rabVerifier) SetTimeout()     { p.v.SetTimeout() }
func (rab) SignResp(r *Resp, key kyber.Scalar) {
	pr := &rvss.Response{SessionID: r.Sid, Index: r.Index, Approved: r.Approved}
	r.Sig, _ = schnorrSign(key, pr.Hash(kit.Ed()))
}
func (rab) Recover(deals []*Deal, n, t uint32) (kyber.Scalar, error) {
	var ds []*rvss.Deal
	for _, d := range deals {
		pd, err := rabDealIn(d)
		if err != nil {
			return nil, err
		}
		ds = append(ds, pd)
	}
	return rvss.RecoverSecret(kit.Ed(), ds, n, t)
}
func (rab) Decode(raw []byte) (out *Deal) {
	defer func() {
		if recover() != nil {
			out = nil
		}
	}()
	d := &rvss.Deal{}
	if err := d.Unmarshal(raw, kit.Ed()); err != nil || d.SecShare == nil || d.SecShare.V == nil || d.RndShare == nil || d.RndShare.V == nil {
		return nil
	}
	for _, c := range d.Commitments {
		if c == nil {
			return nil
		}
	}
	return rabDealOut(d)
}
func (rab) Unmarshal(raw []byte) error { return (&rvss.Deal{}).Unmarshal(raw, kit.Ed()) }

func schnorrSign(key kyber.Scalar, msg []byte) ([]byte, error) {
	return schnorr.Sign(kit.Ed(), key, msg)
}
