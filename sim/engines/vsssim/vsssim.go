// Package vsssim decides C10: one dealer and n verifiers of both VSS variants
// over simulated channels, with a malicious dealer going through the real
// encryption path (hook VerifEncryptDeal), Byzantine verifiers, loss,
// duplication, reordering, corruption and timeouts. A reference model fed only
// with each node's own delivered history decides whether "certified" is
// supported.
package vsssim

import (
	"bytes"
	"crypto/sha256"
	"fmt"
	"math/big"

	"go.dedis.ch/kyber/v4"

	"verif/sim/core"
	"verif/sim/kit"
)

type Engine struct{}

func init() {
	core.Register(Engine{})
	core.RegisterCheck(core.CheckSpec{Property: "C10", Engines: []string{"vsssim"}, Level: "exploration"})
}

func (Engine) Name() string { return "vsssim" }
func (Engine) Runs(prop, tier string) int {
	if prop == "C04" {
		if tier == "thorough" {
			return 200000
		}
		return 5000
	}
	if tier == "thorough" {
		return 250000
	}
	return 40000
}
func (Engine) Real() []string {
	return []string{"share/vss/pedersen (Dealer, Verifier, Aggregator, dh.go)", "share/vss/rabin (Dealer, Verifier, aggregator, dh.go)",
		"internal/protobuf + internal/v3marshaling (Deal.Marshal/Unmarshal)", "sign/schnorr", "share/poly.go", "group/edwards25519"}
}
func (Engine) Stubs() []string {
	return []string{"verifier driver (broadcast the returned Response; buffer responses/justifications that arrive before the deal; SetTimeout at the timeout event)",
		"dealer driver (broadcast the returned Justification)", "malicious-dealer and Byzantine-verifier scripts", "discrete-event network (kit.Net)"}
}
func (Engine) Rule() string {
	return "one run = one VSS session (pedersen|rabin, n in 3..6, t in 2..n) under tape-drawn dealer behaviour per verifier, justification behaviour per complaint, Byzantine verifier scripts (<= n-t), network faults and timeout positions; signature = hash of the delivery order with verdicts; non-trivial = a fault or Byzantine behaviour fired or a delivery overtook another"
}

const (
	stNone = iota
	stApprove
	stComplaint
	stJustified
)

// model is the reference model of one node, fed only with that node's own
// delivered history.
type model struct {
	has      bool
	sid      []byte
	commits  [][]byte
	t        uint32
	resp     map[uint32]int
	bad      bool
	timedOut bool
}

func (m *model) support() int {
	n := 0
	for _, s := range m.resp {
		if s == stApprove || s == stJustified {
			n++
		}
	}
	return n
}

type vnode struct {
	obj                verifierObj
	hasDeal            bool
	timedOutBeforeDeal bool
	buffered           []any
	m                  model
	byz                bool
	approved           bool
	plain              *Deal // plaintext of the deal this node adopted (harness knowledge)

	pendingTimeout bool
	sawForgedJust  bool
	inSession      bool // the adopted deal belongs to the dealer's real session (commitments, threshold, id)
}

func viol(prop, oracle, class, format string, a ...any) *core.Violation {
	return &core.Violation{Property: prop, Engine: "vsssim", Oracle: oracle, Class: prop + "/" + class, Detail: fmt.Sprintf(format, a...)}
}

func commitsEqual(a, b [][]byte) bool {
	if len(a) != len(b) {
		return false
	}
	for i := range a {
		if !bytes.Equal(a[i], b[i]) {
			return false
		}
	}
	return true
}

// shareOnCommits checks independently of share/vss that the deal's share for
// its index lies on the committed polynomial.
func shareOnCommits(g kyber.Group, rabin bool, H kyber.Point, d *Deal, commits [][]byte) bool {
	cs, err := pts(g, commits)
	if err != nil || len(cs) == 0 {
		return false
	}
	v, err := sc(g, d.SecV)
	if err != nil {
		return false
	}
	lhs := g.Point().Mul(v, nil)
	if rabin {
		r, err := sc(g, d.RndV)
		if err != nil || d.RndI != d.SecI {
			return false
		}
		lhs = g.Point().Add(lhs, g.Point().Mul(r, H))
	}
	return lhs.Equal(kit.EvalCommits(g, cs, d.SecI))
}

var dealKinds = []string{"honest", "share-off-poly", "commitments-altered", "index-other", "index-out-of-range", "t-out-of-range",
	"wrong-recipient", "forged-dh-signature", "replayed-second-deal", "sid-field-altered", "garbage-plaintext", "t-different-valid", "equivocating-commitments", "share-of-other-under-own-index"}

// kinds after which an approval is a violation of C10's second sentence
var badDeal = map[string]bool{"share-off-poly": true, "commitments-altered": true, "index-other": true, "index-out-of-range": true,
	"t-out-of-range": true, "forged-dh-signature": true, "garbage-plaintext": true, "corrupted-in-flight": true, "share-of-other-under-own-index": true}

var justKinds = []string{"correct", "wrong-share", "other-index-deal", "substituted-commitments", "none", "twice", "wrong-t", "bad-then-good"}

func (Engine) RunOne(t *core.Tape, prop, tier string, info *core.RunInfo) *core.Violation {
	g := kit.Ed()
	var va variant = ped{}
	if t.Intn("cfg", 2) == 1 {
		va = rab{}
	}
	isRabin := va.Name() == "rabin"
	n := t.Range("cfg", 3, 6)
	th := t.Range("cfg", 2, n)
	honestClass := t.Bool("cfg.class", 120)
	malDealer := !honestClass && t.Bool("cfg", 500)
	c04 := prop == "C04" // deciding C04: every run has a dealer that encrypts damaged plaintexts, and a corrupting network
	if c04 {
		honestClass, malDealer = false, true
	}
	nByz := 0
	if !honestClass && n-th > 0 && t.Bool("cfg", 500) {
		nByz = 1 + t.Intn("cfg", n-th)
	}
	cfg := kit.NetCfg{}
	corruptPm := 0
	if !honestClass {
		cfg = kit.DrawNetCfg(t, true)
		if t.Bool("cfg", 250) || prop == "C04" {
			corruptPm = 30 + t.Intn("cfg", 150)
		}
	}
	info.Config["variant"], info.Config["n"], info.Config["t"] = va.Name(), n, th
	info.Config["class"] = map[bool]string{true: "honest", false: "fault"}[honestClass]
	info.Config["malicious_dealer"], info.Config["byz_verifiers"], info.Config["net"], info.Config["corrupt_pm"] = malDealer, nByz, fmt.Sprintf("%+v", cfg), corruptPm

	privs, pubs := kit.KeyPairs(g, t, "keys", n+1)
	dPriv, dPub := privs[n], pubs[n]
	vPubs := pubs[:n]
	// as in a DKG, the dealer may itself be one of the verifiers (same long-term key): the deal "to
	// itself" then arrives like any other and is authenticated like any other (seed C10e: the verifier
	// skipped the signature check when the dealer's key was its own)
	dealerAlso := -1
	if t.Bool("cfg.dealerin", 300) {
		dealerAlso = t.Intn("cfg.dealerin", n)
		dPriv, dPub = privs[dealerAlso], pubs[dealerAlso]
	}
	info.Config["dealer_is_verifier"] = dealerAlso
	secret := kit.ScalarFromTape(g, t, "keys")
	dealer, err := va.NewDealer(dPriv, secret, kit.CopyPoints(g, vPubs), uint32(th))
	if err != nil {
		return viol("C10", "setup", "setup/newdealer", "NewDealer(n=%d,t=%d): %v", n, th, err)
	}
	var H kyber.Point
	if isRabin {
		var b bytes.Buffer
		for _, p := range vPubs {
			_, _ = p.MarshalTo(&b)
		}
		H = g.Point().Pick(g.XOF(b.Bytes()))
	}
	realSid := kit.CopyBytes(dealer.SessionID())
	dm := model{has: true, sid: realSid, t: uint32(th), resp: map[uint32]int{}}
	if p0 := dealer.Plain(0); p0 != nil {
		dm.commits = p0.Commits
	}

	nodes := make([]*vnode, n)
	byzSet := map[int]bool{}
	for _, b := range t.Perm("cfg.byz", n)[:nByz] {
		byzSet[b] = true
	}
	for i := 0; i < n; i++ {
		nodes[i] = &vnode{byz: byzSet[i], m: model{resp: map[uint32]int{}}}
		if !byzSet[i] {
			v, err := va.NewVerifier(privs[i], kit.CopyPoint(g, dPub), kit.CopyPoints(g, vPubs))
			if err != nil {
				return viol("C10", "setup", "setup/newverifier", "NewVerifier: %v", err)
			}
			nodes[i].obj = v
		}
	}
	net := kit.NewNet(t, info, cfg)
	const dealerID = 100

	// ---- the dealer's deals ----
	var altDealer dealerObj
	mkDeal := func(i int) (*Enc, *Deal, string) {
		kind := "honest"
		if malDealer && t.Bool("byz.deal", 550) {
			kind = dealKinds[1+t.Intn("byz.deal", len(dealKinds)-1)]
		}
		if malDealer && i == dealerAlso && t.Bool("byz.dealerin", 400) {
			kind = "forged-dh-signature" // somebody else claims to be the dealer towards the dealer's own verifier
		}
		if c04 && t.Bool("byz.deal", 700) {
			kind = "garbage-plaintext"
		}
		plain := dealer.Plain(i)
		var e *Enc
		var err error
		wrongFor := i
		switch kind {
		case "honest":
			e, err = dealer.Enc(i)
		case "share-off-poly":
			plain.SecV = sb(kit.ScalarFromTape(g, t, "byz.val"))
			e, err = dealer.Custom(i, plain, nil, nil)
		case "commitments-altered":
			k := t.Intn("byz.deal", len(plain.Commits))
			plain.Commits[k] = pb(g.Point().Mul(kit.ScalarFromTape(g, t, "byz.val"), nil))
			e, err = dealer.Custom(i, plain, nil, nil)
		case "index-other":
			j := (i + 1 + t.Intn("byz.deal", n-1)) % n
			plain = dealer.Plain(j) // a perfectly valid deal, but of verifier j
			e, err = dealer.Custom(i, plain, nil, nil)
		case "share-of-other-under-own-index":
			// the verifier's own index on the secret share, but the VALUES (and, in the Rabin variant, the
			// index of the blinding share) of another verifier: consistent among themselves, wrong for i
			// (seed C10f: Rabin VerifyDeal evaluated the commitments at the blinding share's index)
			j := (i + 1 + t.Intn("byz.deal", n-1)) % n
			pj := dealer.Plain(j)
			plain.SecV = pj.SecV
			plain.RndI, plain.RndV = pj.RndI, pj.RndV
			e, err = dealer.Custom(i, plain, nil, nil)
		case "index-out-of-range":
			plain.SecI = uint32(n + t.Intn("byz.deal", 3))
			plain.RndI = plain.SecI
			e, err = dealer.Custom(i, plain, nil, nil)
		case "t-out-of-range":
			plain.T = []uint32{0, 1, uint32(n + 1), uint32(n + 7)}[t.Intn("byz.deal", 4)]
			e, err = dealer.Custom(i, plain, nil, nil)
		case "t-different-valid":
			nt := uint32(2 + t.Intn("byz.deal", n-1))
			if nt == plain.T {
				kind = "honest"
			}
			plain.T = nt
			e, err = dealer.Custom(i, plain, nil, nil)
		case "wrong-recipient":
			j := (i + 1 + t.Intn("byz.deal", n-1)) % n
			plain = dealer.Plain(j)
			wrongFor = j
			e, err = dealer.Custom(j, plain, nil, nil) // encrypted for j, delivered to i
		case "forged-dh-signature":
			e, err = dealer.Custom(i, plain, nil, kit.ScalarFromTape(g, t, "byz.val"))
		case "replayed-second-deal":
			e, err = dealer.Enc(i) // the second copy is produced at send time
		case "sid-field-altered":
			plain.Sid = t.OtherBytes("byz.val", plain.Sid, len(plain.Sid))
			e, err = dealer.Custom(i, plain, nil, nil)
		case "garbage-plaintext":
			raw := t.Bytes("byz.val", t.Intn("byz.deal", 200))
			if t.Bool("byz.deal", 500) {
				// a valid plaintext damaged in one place
				d2, _ := va.NewDealer(dPriv, secret, kit.CopyPoints(g, vPubs), uint32(th))
				_ = d2
				raw = mutate(t, marshalVia(va, dealer, i))
			}
			e, err = dealer.Custom(i, nil, raw, nil)
			// what does this plaintext decode to? (kyber's decoder is used only to learn what the
			// verifier will hold, never as an oracle; validity is judged below with harness arithmetic)
			if dec := va.Decode(raw); dec != nil {
				real := dealer.Plain(i)
				if dec.SecI == uint32(i) && dec.T == real.T && commitsEqual(dec.Commits, real.Commits) && bytes.Equal(dec.Sid, real.Sid) &&
					shareOnCommits(g, isRabin, H, dec, real.Commits) {
					kind = "honest" // damaged encoding, same deal
				}
				plain = dec
			} else {
				plain = nil
			}
		case "equivocating-commitments":
			// a second, self-consistent polynomial for this verifier only; the session-id FIELD is the real one
			// ONE alternative sharing per run: the verifiers that are served from it form a second
			// session under the same dealer key, whose responses circulate too (seed C10i: a verifier
			// holding a deal of the first sharing was talked into the second one's session id)
			var aerr error
			if altDealer == nil {
				altDealer, aerr = va.NewDealer(dPriv, kit.ScalarFromTape(g, t, "byz.val"), kit.CopyPoints(g, vPubs), uint32(th))
			}
			alt := altDealer
			if aerr != nil || alt == nil {
				kind = "honest"
				e, err = dealer.Enc(i)
				break
			}
			plain = alt.Plain(i)
			plain.Sid = kit.CopyBytes(realSid)
			e, err = dealer.Custom(i, plain, nil, nil)
		}
		if err != nil || e == nil {
			// the hook refused (e.g. undecodable crafted value): fall back to honest
			kind = "honest"
			plain = dealer.Plain(i)
			e, _ = dealer.Enc(i)
		}
		e.kind, e.forIdx = kind, i
		e.encFor = i
		if kind == "wrong-recipient" {
			e.encFor = wrongFor
		}
		if plain != nil {
			e.plainIdx = plain.SecI
		} else {
			e.plainIdx = uint32(i)
		}
		return e, plain, kind
	}
	plains := map[*Enc]*Deal{}
	encPlain := func(e *Enc) *Deal { return plains[e] }
	_ = encPlain
	type dealMsg struct {
		e     *Enc
		plain *Deal
	}
	cloneDeal := func(x any) any {
		m := x.(*dealMsg)
		return &dealMsg{e: cloneAny(m.e).(*Enc), plain: m.plain.clone()}
	}
	for i := 0; i < n; i++ {
		e, plain, kind := mkDeal(i)
		if kind != "honest" {
			info.ByzFired("deal:" + kind)
		}
		to := i
		if !honestClass && t.Bool("net.misroute", 40) {
			to = (i + 1 + t.Intn("net.misroute", n-1)) % n
			e.kind = "misrouted:" + e.kind
			info.Fault("misroute")
		}
		if corruptPm > 0 && t.Bool("net.corrupt", corruptPm) {
			e = cloneAny(e).(*Enc)
			switch t.Intn("net.corrupt", 3) {
			case 0:
				if len(e.Cipher) > 0 {
					b := t.Intn("net.corrupt", len(e.Cipher)*8)
					e.Cipher[b/8] ^= 1 << (b % 8)
				}
			case 1:
				b := t.Intn("net.corrupt", len(e.DH)*8)
				e.DH[b/8] ^= 1 << (b % 8)
			case 2:
				e.Cipher = e.Cipher[:t.Intn("net.corrupt", len(e.Cipher))]
			}
			e.kind = "corrupted-in-flight"
			info.Fault("corrupt-deal")
		}
		info.Logf("dealer -> v%d: %s cipher#%x dh#%x", to, e.kind, sha256.Sum256(e.Cipher), sha256.Sum256(e.DH))
		net.Send(dealerID, to, "deal", &dealMsg{e, plain}, cloneDeal)
		if kind == "replayed-second-deal" {
			e2, p2, _ := mkDeal(i)
			e2.kind = "second:" + e2.kind
			net.Send(dealerID, to, "deal", &dealMsg{e2, p2}, cloneDeal)
		}
	}
	// timeouts
	if !honestClass {
		for i := 0; i <= n; i++ {
			if t.Bool("sched.timeout", 350) {
				id := i
				if i == n {
					id = dealerID
				}
				net.After(int64(2+t.Intn("sched.timeout", 12))*1_000_000, id, "timeout", nil)
			}
		}
	}
	if !honestClass && t.Bool("sched.justabsent", 200) {
		net.After(int64(6+t.Intn("sched.justabsent", 14))*1_000_000, dealerID, "justify-absent", t.Intn("sched.justabsent", n))
	}
	// Byzantine verifier scripts
	for b := range nodes {
		if !nodes[b].byz {
			continue
		}
		net.After(int64(1+t.Intn("sched.byz", 6))*1_000_000, b, "byz-act", nil)
	}

	corruptResp := func(r *Resp) *Resp {
		c := cloneAny(r).(*Resp)
		switch t.Intn("net.corrupt", 4) {
		case 0:
			if len(c.Sid) > 0 {
				b := t.Intn("net.corrupt", len(c.Sid)*8)
				c.Sid[b/8] ^= 1 << (b % 8)
			}
		case 1:
			c.Index ^= 1 << t.Intn("net.corrupt", 3)
		case 2:
			c.Approved = !c.Approved
		case 3:
			if len(c.Sig) > 0 {
				b := t.Intn("net.corrupt", len(c.Sig)*8)
				c.Sig[b/8] ^= 1 << (b % 8)
			}
		}
		c.auth = false
		c.kind += "+corrupted"
		info.Fault("corrupt-response")
		return c
	}
	bcastResp := func(from int, r *Resp) {
		for to := 0; to <= n; to++ {
			id := to
			if to == n {
				id = dealerID
			}
			if id == from {
				continue
			}
			m := r
			if corruptPm > 0 && t.Bool("net.corrupt", corruptPm) {
				m = corruptResp(r)
			}
			net.Send(from, id, "resp", m, cloneAny)
		}
	}
	bcastJust := func(j *Just) {
		for to := 0; to < n; to++ {
			net.Send(dealerID, to, "just", j, cloneAny)
		}
	}

	recordResp := func(m *model, r *Resp, who string) *core.Violation {
		if !r.auth {
			return viol("C10", "authentic-responses", "response/accepted-forged/"+baseKind(r.kind), "%s accepted a response that is not an authentic response of verifier %d (%s)", who, r.Index, r.kind)
		}
		if m.resp[r.Index] != stNone {
			return viol("C10", "one-response-per-verifier", "response/overwritten", "%s accepted a second response from verifier %d (%s)", who, r.Index, r.kind)
		}
		if r.Approved {
			m.resp[r.Index] = stApprove
		} else {
			m.resp[r.Index] = stComplaint
		}
		return nil
	}

	// judge classifies a justification against a node's model, independently of share/vss.
	judge := func(m *model, j *Just) (applicable, correct bool) {
		st := m.resp[j.Index]
		applicable = st == stComplaint || (isRabin && m.timedOut && st == stNone && int(j.Index) < n)
		if j.Deal == nil {
			return applicable, false
		}
		// correct = reveals the complainer's own share, for the commitments and threshold this node
		// holds, lying on the committed polynomial (checked with the harness's own arithmetic)
		correct = j.Deal.SecI == j.Index && commitsEqual(j.Deal.Commits, m.commits) &&
			shareOnCommits(g, isRabin, H, j.Deal, m.commits)
		return
	}

	checkCert := func(who string, certified bool, m *model, isVerifier int) *core.Violation {
		if !certified {
			return nil
		}
		info.Probe("certified-observed")
		if m.bad {
			return viol("C10", "bad-dealer-for-good", "certified/after-invalid-justification/"+va.Name(), "%s reports the deal certified although the dealer produced an invalid justification earlier", who)
		}
		if m.support() < int(m.t) {
			return viol("C10", "certified-needs-support", "certified/support-below-t/"+va.Name(), "%s reports certified with %d approvals/correctly-justified complaints, t=%d (responses %v)", who, m.support(), m.t, m.resp)
		}
		// by consequence: approvals of honest verifiers only count if they approved the same commitments
		if isVerifier >= 0 {
			same := 0
			for idx, s := range m.resp {
				if s != stApprove && s != stJustified {
					continue
				}
				k := nodes[idx]
				if k.byz || s == stJustified || (k.plain != nil && commitsEqual(k.plain.Commits, m.commits)) {
					same++
				}
			}
			if same < int(m.t) {
				return viol("C10", "certified-needs-support", "certified/approvals-for-other-commitments/"+va.Name(), "%s reports certified, but only %d of the counted verifiers approved the commitments this node holds (t=%d): the dealer equivocated", who, same, m.t)
			}
		}
		return nil
	}

	var handle func(i int, kind string, payload any) *core.Violation
	handle = func(i int, kind string, payload any) *core.Violation {
		nd := nodes[i]
		switch kind {
		case "deal":
			dmsg := payload.(*dealMsg)
			e := dmsg.e
			var r *Resp
			var err error
			if p := core.Guard(func() { r, err = nd.obj.ProcessEnc(e) }); p != nil {
				pr := "C10"
				if e.kind == "garbage-plaintext" || e.kind == "corrupted-in-flight" {
					pr = "C04"
				}
				return viol(pr, "totality", "verifier/panic-on-deal/"+va.Name()+"/"+e.kind, "verifier %d panicked in ProcessEncryptedDeal (%s): %v\n%s", i, e.kind, p, core.LastStack())
			}
			verdict := "error"
			if r != nil {
				verdict = map[bool]string{true: "approve", false: "complain"}[r.Approved]
			}
			info.Logf("t=%d deal(%s) -> v%d: %s", net.Now, e.kind, i, verdict)
			info.SigAdd("D%d:%s:%s", i, e.kind, verdict)
			k := e.kind
			if len(k) > 7 && k[:7] == "second:" {
				k = k[7:]
			}
			if len(k) > 10 && k[:10] == "misrouted:" {
				k = k[10:]
			}
			wrongTarget := e.encFor != i || e.plainIdx != uint32(i)
			if r != nil && r.Approved && (badDeal[k] || wrongTarget) {
				if wrongTarget && !badDeal[k] {
					k = "not-for-this-verifier"
				}
				return viol("C10", "never-approves-bad-deal", "verifier/approved-bad-deal/"+va.Name()+"/"+k, "verifier %d approved a deal of kind %s (encrypted for %d, share index %d)", i, e.kind, e.encFor, e.plainIdx)
			}
			if r != nil && r.Approved && nd.hasDeal {
				return viol("C10", "never-approves-bad-deal", "verifier/approved-second-deal/"+va.Name(), "verifier %d approved a second deal (%s)", i, e.kind)
			}
			if e.kind == "honest" && !wrongTarget && !nd.hasDeal && (r == nil || !r.Approved) {
				return viol("C10", "honest-deal-approved", "verifier/rejected-honest-deal/"+va.Name(), "verifier %d did not approve an honest deal: resp=%v err=%v", i, r, err)
			}
			if r == nil {
				info.Probe("deal-error")
				return nil
			}
			if nd.hasDeal {
				return viol("C10", "one-deal", "verifier/second-deal-answered/"+va.Name(), "verifier %d issued a second response for a second deal", i)
			}
			nd.hasDeal = true
			nd.approved = r.Approved
			if dmsg.plain == nil {
				return viol("C04", "totality", "verifier/answered-undecodable-deal/"+va.Name(), "verifier %d issued a response for a plaintext that does not decode as a deal (%s)", i, e.kind)
			}
			nd.plain = dmsg.plain
			nd.inSession = commitsEqual(dmsg.plain.Commits, dm.commits) && dmsg.plain.T == uint32(th) && bytes.Equal(dmsg.plain.Sid, realSid)
			nd.m.has = true
			nd.m.sid = dmsg.plain.Sid
			nd.m.commits = dmsg.plain.Commits
			nd.m.t = dmsg.plain.T
			if r.Approved {
				nd.m.resp[uint32(i)] = stApprove
				info.Probe("deal-approved")
			} else {
				nd.m.resp[uint32(i)] = stComplaint
				info.Probe("deal-complaint")
			}
			bcastResp(i, r)
			if nd.timedOutBeforeDeal {
				nd.m.timedOut = true // the flag was set on the object before the deal came in
			}
			if nd.pendingTimeout {
				nd.pendingTimeout = false
				if v := handle(i, "timeout", nil); v != nil {
					return v
				}
			}
			buf := nd.buffered
			nd.buffered = nil
			for _, b := range buf {
				info.Probe("buffered-message-replayed")
				var v *core.Violation
				switch m := b.(type) {
				case *Resp:
					v = handle(i, "resp", m)
				case *Just:
					v = handle(i, "just", m)
				}
				if v != nil {
					return v
				}
			}
		case "resp":
			r := payload.(*Resp)
			if !nd.hasDeal {
				nd.buffered = append(nd.buffered, r)
				return nil
			}
			var err error
			if p := core.Guard(func() { err = nd.obj.ProcessResponse(r) }); p != nil {
				return viol("C10", "totality", "verifier/panic-on-response/"+va.Name(), "verifier %d panicked in ProcessResponse(%s): %v", i, r.kind, p)
			}
			info.Logf("t=%d resp(%s idx=%d ok=%v) -> v%d: err=%v", net.Now, r.kind, r.Index, r.Approved, i, err != nil)
			info.SigAdd("R%d:%d:%v:%s:%v", i, r.Index, r.Approved, r.kind, err == nil)
			if err == nil {
				if nd.inSession && !bytes.Equal(r.Sid, realSid) {
					// a verifier that holds a deal of THIS sharing takes part in this session only
					return viol("C10", "authentic-responses", "response/accepted-for-another-session/"+va.Name(), "verifier %d holds a deal of the dealer's session and accepted a response (%s, verifier %d) that carries another session id", i, r.kind, r.Index)
				}
				if v := recordResp(&nd.m, r, fmt.Sprintf("verifier %d", i)); v != nil {
					return v
				}
			} else if r.auth {
				info.Probe("authentic-response-rejected")
			}
		case "just":
			j := payload.(*Just)
			if !nd.hasDeal {
				nd.buffered = append(nd.buffered, j)
				return nil
			}
			applicable, correct := judge(&nd.m, j)
			var err error
			if p := core.Guard(func() { err = nd.obj.ProcessJust(j) }); p != nil {
				return viol("C10", "totality", "verifier/panic-on-justification/"+va.Name()+"/"+j.kind, "verifier %d panicked in ProcessJustification(%s): %v", i, j.kind, p)
			}
			info.Logf("t=%d just(%s idx=%d) -> v%d: applicable=%v correct=%v err=%v", net.Now, j.kind, j.Index, i, applicable, correct, err != nil)
			info.SigAdd("J%d:%d:%s:%v", i, j.Index, j.kind, err == nil)
			authDealer := len(j.kind) < 10 || j.kind[len(j.kind)-10:] != "+corrupted"
			if !authDealer {
				nd.sawForgedJust = true
			}
			ambiguous := j.Deal != nil && j.Deal.T != nd.m.t // right share, other threshold field: the property does not say
			switch {
			case applicable && ambiguous:
				if err == nil {
					nd.m.resp[j.Index] = stJustified
				} else if authDealer {
					nd.m.bad = true
				}
				info.Probe("justification-ambiguous-threshold-field")
			case applicable && correct:
				if err == nil {
					nd.m.resp[j.Index] = stJustified
					info.Probe("complaint-cleared")
				} else if authDealer && nd.inSession {
					return viol("C10", "correct-justification-clears", "justification/correct-rejected/"+va.Name(), "verifier %d rejected a correct justification for the outstanding complaint of %d: %v", i, j.Index, err)
				}
			case applicable && !correct:
				if err == nil {
					return viol("C10", "incorrect-justification-marks-bad", "justification/invalid-accepted/"+va.Name()+"/"+baseKind(j.kind), "verifier %d accepted an incorrect justification (%s) for the complaint of %d", i, j.kind, j.Index)
				}
				if authDealer {
					nd.m.bad = true
					info.Probe("dealer-marked-bad")
				}
			default:
				info.Probe("justification-not-applicable")
			}
		case "timeout":
			if !nd.hasDeal && va.Name() == "pedersen" {
				// the Pedersen verifier takes a timeout before its deal: it has nothing to certify
				// (checked by the invariant below: no deal, no certified verdict)
				nd.obj.SetTimeout()
				nd.timedOutBeforeDeal = true
				info.Fault("timeout-before-deal")
				info.Logf("t=%d timeout v%d (no deal yet)", net.Now, i)
				info.SigAdd("T%d", i)
				return nil
			}
			if !nd.hasDeal {
				// Rabin's Verifier dereferences a nil aggregator when timed out (or handed a
				// response) before its deal; C10 does not speak about that order, so the
				// driver defers the timeout until the deal is in (observation, DESIGN §3 C10).
				nd.pendingTimeout = true
				info.Probe("timeout-before-deal-deferred")
				return nil
			}
			nd.obj.SetTimeout()
			nd.m.timedOut = true
			info.Fault("timeout")
			info.Logf("t=%d timeout v%d", net.Now, i)
			info.SigAdd("T%d", i)
		}
		return nil
	}

	justFor := map[uint32]bool{}
	for steps := 0; steps < 3000; steps++ {
		ev, ok := net.Next()
		if !ok {
			break
		}
		if ev.To == dealerID {
			switch ev.Kind {
			case "resp":
				r := ev.Payload.(*Resp)
				var j *Just
				var err error
				if p := core.Guard(func() { j, err = dealer.ProcessResponse(r) }); p != nil {
					return viol("C10", "totality", "dealer/panic-on-response/"+va.Name(), "dealer panicked in ProcessResponse(%s): %v", r.kind, p)
				}
				info.Logf("t=%d resp(%s idx=%d ok=%v) -> dealer: err=%v just=%v", net.Now, r.kind, r.Index, r.Approved, err != nil, j != nil)
				info.SigAdd("RD:%d:%v:%s:%v", r.Index, r.Approved, r.kind, err == nil)
				if err == nil {
					if v := recordResp(&dm, r, "dealer"); v != nil {
						return v
					}
				}
				if j != nil && !justFor[j.Index] {
					justFor[j.Index] = true
					jk := "correct"
					if malDealer {
						jk = justKinds[t.Intn("byz.just", len(justKinds))]
					}
					j.kind = jk
					switch jk {
					case "wrong-share":
						j.Deal.SecV = sb(kit.ScalarFromTape(g, t, "byz.val"))
					case "other-index-deal":
						o := (int(j.Index) + 1 + t.Intn("byz.just", n-1)) % n
						j.Deal = dealer.Plain(o)
					case "substituted-commitments":
						alt, aerr := va.NewDealer(dPriv, kit.ScalarFromTape(g, t, "byz.val"), kit.CopyPoints(g, vPubs), uint32(th))
						if aerr == nil {
							j.Deal = alt.Plain(int(j.Index))
							j.Deal.Sid = kit.CopyBytes(realSid)
						}
					case "wrong-t":
						j.Deal.T = uint32(2 + (int(j.Deal.T)-2+1)%(n-1))
					}
					if jk == "bad-then-good" {
						// an invalid justification first, the valid one afterwards: the dealer must stay bad for good
						bad := cloneAny(j).(*Just)
						bad.kind = "wrong-share"
						bad.Deal.SecV = sb(kit.ScalarFromTape(g, t, "byz.val"))
						if err := va.SignJust(bad, dPriv); err == nil {
							info.ByzFired("just:" + jk)
							bcastJust(bad)
						}
						j.kind = "correct"
						jk = "correct"
					}
					if jk != "correct" {
						info.ByzFired("just:" + jk)
						if err := va.SignJust(j, dPriv); err != nil {
							continue
						}
					}
					if jk == "none" {
						continue
					}
					bcastJust(j)
					if jk == "twice" {
						bcastJust(j)
					}
				}
			case "timeout":
				dealer.SetTimeout()
				dm.timedOut = true
				info.Fault("timeout")
				info.Logf("t=%d timeout dealer", net.Now)
			case "justify-absent":
				// the dealer reveals, unasked, the deal of a verifier it has not heard from (after a
				// timeout this clears that verifier's implicit complaint in the Rabin variant)
				i := ev.Payload.(int)
				if dm.resp[uint32(i)] != stNone {
					break
				}
				j := &Just{Sid: kit.CopyBytes(realSid), Index: uint32(i), Deal: dealer.Plain(i), kind: "correct"}
				if err := va.SignJust(j, dPriv); err == nil {
					info.ByzFired("just:unasked-for-silent-verifier")
					info.Logf("t=%d dealer justifies silent verifier %d unasked", net.Now, i)
					bcastJust(j)
				}
			}
		} else if ev.Kind == "byz-act" {
			b := ev.To
			act := t.Intn("byz.ver", 7)
			var r *Resp
			name := ""
			switch act {
			case 0:
				r = &Resp{Sid: kit.CopyBytes(realSid), Index: uint32(b), Approved: false, auth: true}
				va.SignResp(r, privs[b])
				name = "false-complaint"
			case 1:
				r = &Resp{Sid: kit.CopyBytes(realSid), Index: uint32(b), Approved: true, auth: true}
				va.SignResp(r, privs[b])
				name = "approval-without-deal"
			case 2:
				h := (b + 1 + t.Intn("byz.ver", n-1)) % n
				r = &Resp{Sid: kit.CopyBytes(realSid), Index: uint32(h), Approved: t.Bool("byz.ver", 500), auth: false}
				va.SignResp(r, privs[b])
				name = "spoofed-index"
			case 3:
				r = &Resp{Sid: t.OtherBytes("byz.val", realSid, len(realSid)), Index: uint32(b), Approved: true, auth: false}
				va.SignResp(r, privs[b])
				name = "wrong-session-id"
			case 4:
				r = &Resp{Sid: kit.CopyBytes(realSid), Index: uint32(b), Approved: true, auth: true}
				va.SignResp(r, privs[b])
				r.kind = "conflicting-first"
				bcastResp(b, r)
				r = &Resp{Sid: kit.CopyBytes(realSid), Index: uint32(b), Approved: false, auth: true}
				va.SignResp(r, privs[b])
				name = "conflicting-second"
			case 5:
				name = "silent"
			case 6:
				// an approval that an honest verifier h really signed - in an EARLIER session of the same dealer
				// and verifiers - replayed with its session id field rewritten to the current one (seed C10h: the
				// signature no longer covered the session id)
				h := (b + 1 + t.Intn("byz.ver", n-1)) % n
				r = &Resp{Sid: t.OtherBytes("byz.val", realSid, len(realSid)), Index: uint32(h), Approved: true, auth: false}
				va.SignResp(r, privs[h])
				r.Sid = kit.CopyBytes(realSid)
				name = "replayed-from-earlier-session"
			}
			info.ByzFired("verifier:" + name)
			info.Logf("t=%d byz verifier %d: %s", net.Now, b, name)
			if r != nil {
				r.kind = name
				bcastResp(b, r)
				// a Byzantine verifier may also forge a justification (they are not authenticated by signature on this tree)
				if act == 0 && t.Bool("byz.ver", 300) {
					fj := &Just{Sid: kit.CopyBytes(realSid), Index: uint32(b), Deal: dealer.Plain(b), kind: "forged-garbage-by-verifier+corrupted"}
					fj.Deal.SecV = sb(kit.ScalarFromTape(g, t, "byz.val"))
					_ = va.SignJust(fj, privs[b])
					info.ByzFired("verifier:forged-justification")
					for to := 0; to < n; to++ {
						net.Send(b, to, "just", fj, cloneAny)
					}
				}
			}
		} else if ev.To >= 0 && ev.To < n {
			if nodes[ev.To].byz {
				continue
			}
			if v := handle(ev.To, ev.Kind, ev.Payload); v != nil {
				return v
			}
		}
		// invariants after every event
		for i, nd := range nodes {
			if !nd.byz && !nd.hasDeal {
				// a verifier that holds no deal has nothing to report as certified, whatever else
				// (timeouts, early responses) has reached it
				var c bool
				if p := core.Guard(func() { c = nd.obj.Certified() }); p != nil {
					return viol("C10", "totality", "verifier/panic-in-certified/"+va.Name(), "verifier %d (no deal yet) DealCertified panicked: %v", i, p)
				}
				if c {
					return viol("C10", "certified-only-if", "certified/without-a-deal/"+va.Name(), "verifier %d has not received any deal (timed out before it: %v) and reports the deal certified", i, nd.timedOutBeforeDeal)
				}
			}
			if nd.byz || !nd.hasDeal {
				continue
			}
			var c bool
			if p := core.Guard(func() { c = nd.obj.Certified() }); p != nil {
				return viol("C10", "totality", "verifier/panic-in-certified/"+va.Name(), "verifier %d DealCertified panicked: %v", i, p)
			}
			if v := checkCert(fmt.Sprintf("verifier %d", i), c, &nd.m, i); v != nil {
				return v
			}
		}
		if v := checkCert("dealer", dealer.Certified(), &dm, -1); v != nil {
			return v
		}
	}

	// ---- end of run ----
	for i, nd := range nodes {
		if nd.byz || !nd.hasDeal || nd.m.bad {
			continue
		}
		if !nd.inSession {
			continue
		}
		if nd.sawForgedJust {
			// justifications carry a signature that neither variant verifies: anybody can make a
			// verifier mark the dealer bad. C10 promises certification only when everybody
			// follows the protocol, so this is recorded, not asserted (DESIGN §3 C10, observations).
			info.Probe("forged-justification-seen-clause-3b-skipped")
			continue
		}
		all := true
		for k := 0; k < n; k++ {
			s := nd.m.resp[uint32(k)]
			if s != stApprove && s != stJustified {
				all = false
			}
		}
		if all && !nd.obj.Certified() {
			return viol("C10", "justification-clears-complaint", "certified/not-certified-with-all-cleared/"+va.Name(), "verifier %d holds approvals or correctly justified complaints from all %d verifiers and no invalid justification, but does not report the deal certified", i, n)
		}
		if all {
			info.Probe("all-cleared-certified")
		}
	}
	if honestClass {
		var deals []*Deal
		for i, nd := range nodes {
			if !nd.approved {
				return viol("C10", "honest-run", "honest/verifier-did-not-approve/"+va.Name(), "verifier %d did not approve in an all-honest run", i)
			}
			if !nd.obj.Certified() {
				return viol("C10", "honest-run", "honest/verifier-not-certified/"+va.Name(), "verifier %d does not report certified after all responses in an all-honest run", i)
			}
			d := nd.obj.Deal()
			if d == nil {
				return viol("C10", "honest-run", "honest/deal-nil/"+va.Name(), "verifier %d: Deal() is nil although certified", i)
			}
			deals = append(deals, d)
		}
		if !dealer.Certified() {
			return viol("C10", "honest-run", "honest/dealer-not-certified/"+va.Name(), "dealer does not report certified in an all-honest run")
		}
		sG := g.Point().Mul(secret, nil)
		if sc := dealer.SecretCommit(); sc == nil || !sc.Equal(sG) {
			return viol("C10", "honest-run", "honest/secret-commit/"+va.Name(), "SecretCommit() != secret*G")
		}
		if cs := dealer.Commits(); len(cs) != th || !cs[0].Equal(sG) {
			return viol("C10", "honest-run", "honest/commits0/"+va.Name(), "Commits()[0] != secret*G or wrong length %d", len(cs))
		}
		// any t of n in any order
		perm := t.Perm("oracle.subset", n)
		k := th + t.Intn("oracle.subset", n-th+1)
		var sub []*Deal
		for _, p := range perm[:k] {
			sub = append(sub, deals[p])
		}
		rec, err := va.Recover(sub, uint32(n), uint32(th))
		if err != nil || !rec.Equal(secret) {
			return viol("C10", "honest-run", "honest/recover/"+va.Name(), "RecoverSecret from %d deals (order %v) gave %v err=%v, want the dealer's secret", k, perm[:k], rec, err)
		}
		idx := make([]uint32, th)
		ys := make([]*big.Int, th)
		for q := 0; q < th; q++ {
			idx[q] = sub[q].SecI
			v, _ := sc(g, sub[q].SecV)
			ys[q] = kit.ScalarBig(v)
		}
		if got := kit.LagrangeAt0(idx, ys); got.Cmp(kit.ScalarBig(secret)) != 0 {
			return viol("C10", "honest-run", "honest/recover-independent/"+va.Name(), "independent interpolation of %d decrypted shares does not give the secret", th)
		}
		info.Probe("honest-run-recovered")
	}
	return nil
}

func baseKind(k string) string {
	for i := 0; i < len(k); i++ {
		if k[i] == '+' {
			return k[:i] + "+corrupted"
		}
	}
	return k
}

// marshalVia returns the marshalled honest plaintext for verifier i.
func marshalVia(va variant, d dealerObj, i int) []byte {
	p := d.Plain(i)
	if va.Name() == "rabin" {
		rd, err := rabDealIn(p)
		if err != nil {
			return nil
		}
		b, _ := rd.Marshal()
		return b
	}
	pd, err := pedDealIn(p)
	if err != nil {
		return nil
	}
	b, _ := pd.Marshal()
	return b
}

func mutate(t *core.Tape, b []byte) []byte {
	if len(b) == 0 {
		return []byte{0}
	}
	b = kit.CopyBytes(b)
	switch t.Intn("byz.mut", 4) {
	case 0:
		k := t.Intn("byz.mut", len(b)*8)
		b[k/8] ^= 1 << (k % 8)
	case 1:
		b = b[:t.Intn("byz.mut", len(b))]
	case 2:
		b = append(b, t.Bytes("byz.mut", 1+t.Intn("byz.mut", 8))...)
	case 3:
		k := t.Intn("byz.mut", len(b))
		b[k] = byte(t.Intn("byz.mut", 256))
	}
	return b
}
