// Package dsssim decides C12: n DSS participants over a simulated lossy,
// duplicating, reordering, corrupting broadcast network, keys from both real
// DKGs, injected bad partials, crash/restart.
package dsssim

import (
	"bytes"
	"crypto/ed25519"
	"crypto/sha512"
	"fmt"
	"math/big"

	"go.dedis.ch/kyber/v4"
	"go.dedis.ch/kyber/v4/share"
	"go.dedis.ch/kyber/v4/sign/dss"
	"go.dedis.ch/kyber/v4/sign/eddsa"
	"go.dedis.ch/kyber/v4/sign/schnorr"

	"verif/sim/core"
	"verif/sim/kit"
)

type Engine struct{}

func init() {
	core.Register(Engine{})
	core.RegisterCheck(core.CheckSpec{Property: "C12", Engines: []string{"dsssim"}, Level: "exploration"})
}

func (Engine) Name() string { return "dsssim" }
func (Engine) Runs(prop, tier string) int {
	if tier == "thorough" {
		return 60000
	}
	return 4000
}
func (Engine) Real() []string {
	return []string{"sign/dss (NewDSS, PartialSig, ProcessPartialSig, EnoughPartialSig, Signature, Verify)",
		"share/dkg/pedersen (honest set-up, direct mode)", "share/dkg/rabin + share/vss/rabin (honest set-up)",
		"sign/eddsa.Verify", "sign/schnorr", "share/poly.go RecoverSecret", "group/edwards25519"}
}
func (Engine) Stubs() []string {
	return []string{"broadcast-on-produce driver (calls PartialSig at wake-up, Signature as soon as EnoughPartialSig)",
		"discrete-event network (kit.Net)", "adversary node injecting menu partials"}
}
func (Engine) Rule() string {
	return "one run = one DSS session (n in 3..7, t in 2..n, Pedersen or Rabin keys) under a tape-drawn network (loss, duplication, jitter/reorder, in-flight corruption, self-echo), injected bad partials and crash-restarts; signature = hash of the delivery order (recipient, sender, kind, verdict); non-trivial = at least one fault or Byzantine behaviour fired or a delivery overtook an earlier one"
}

type wire struct {
	I     uint32
	V     []byte // encoded scalar
	Sid   []byte
	Sig   []byte
	valid bool   // harness knowledge: is this an authentic, untouched partial of participant I for THIS session
	kind  string // provenance
}

func cloneWire(x any) any {
	w := x.(*wire)
	c := *w
	c.V = kit.CopyBytes(w.V)
	c.Sid = kit.CopyBytes(w.Sid)
	c.Sig = kit.CopyBytes(w.Sig)
	return &c
}

type node struct {
	d        *dss.DSS
	accepted map[uint32]bool // model: distinct indices whose valid partial this incarnation holds
	sig      []byte
	crashed  int
	woke     bool
}

func viol(oracle, class, format string, a ...any) *core.Violation {
	return &core.Violation{Property: "C12", Engine: "dsssim", Oracle: oracle, Class: "C12/" + class, Detail: fmt.Sprintf(format, a...)}
}

func le32(v *big.Int) []byte {
	be := new(big.Int).Mod(v, kit.L).Bytes()
	le := make([]byte, 32)
	for i := range be {
		le[i] = be[len(be)-1-i]
	}
	return le
}

func (Engine) RunOne(t *core.Tape, prop, tier string, info *core.RunInfo) *core.Violation {
	suite := kit.Ed()
	n := t.Range("cfg", 3, 7)
	th := t.Range("cfg", 2, n)
	useRabin := t.Intn("cfg", 2) == 1
	msg := t.Bytes("cfg", t.Intn("cfg", 65))
	if t.Bool("cfg.long", 150) {
		msg = t.Bytes("cfg", []int{63, 64, 65, 127, 128, 129, 136, 255, 256, 300}[t.Intn("cfg.long", 10)])
	}
	honestClass := t.Bool("cfg.class", 120) // separate fault-free class: no fault kind enabled at all
	cfg := kit.DrawNetCfg(t, true)
	if honestClass {
		cfg = kit.NetCfg{}
	}
	corruptPm := 0
	if !honestClass && t.Bool("cfg", 350) {
		corruptPm = 40 + t.Intn("cfg", 200)
	}
	echo := !honestClass && t.Bool("cfg", 400)
	nInject := 0
	if !honestClass && t.Bool("cfg", 600) {
		nInject = 1 + t.Intn("cfg", 8)
	}
	crashPm := 0
	if !honestClass && t.Bool("cfg", 300) {
		crashPm = 30 + t.Intn("cfg", 120)
	}
	nByz := 0
	if !honestClass && t.Bool("cfg", 400) {
		nByz = 1 + t.Intn("cfg", n-1)
	}
	info.Config["n"], info.Config["t"], info.Config["dkg"] = n, th, map[bool]string{false: "pedersen", true: "rabin"}[useRabin]
	info.Config["net"] = fmt.Sprintf("%+v", cfg)
	info.Config["corrupt_pm"], info.Config["echo"], info.Config["inject"], info.Config["crash_pm"], info.Config["silent_participants"] = corruptPm, echo, nInject, crashPm, nByz

	privs, pubs := kit.KeyPairs(suite, t, "keys", n)
	// the two distributed keys need not have the threshold of the signing session: one of them may
	// come from a DKG with a LOWER threshold (the partial signatures then lie on a polynomial of
	// degree th-1 all the same, and th of them are needed). Seed C12g: Signature() interpolated
	// with the long-term key's threshold instead of the session's.
	thOf := map[byte]int{1: th, 2: th, 3: th, 4: th}
	if th > 2 && t.Bool("cfg.mixedt", 250) {
		lower := t.Range("cfg.mixedt", 2, th-1)
		if t.Bool("cfg.mixedt", 500) {
			thOf[2], thOf[3], thOf[4] = lower, lower, lower // the one-time keys
		} else {
			thOf[1] = lower // the long-term key
		}
		info.Faults["keys-with-different-thresholds"]++
		info.Config["t_long"], info.Config["t_random"] = thOf[1], thOf[2]
	}
	mk := func(salt byte) ([]dss.DistKeyShare, error) {
		th := thOf[salt]
		if th == 0 {
			th = thOf[2]
		}
		out := make([]dss.DistKeyShare, n)
		if useRabin {
			ks, err := kit.RabinHonest(privs, pubs, th)
			if err != nil {
				return nil, err
			}
			for i := range ks {
				out[i] = ks[i]
			}
			return out, nil
		}
		nonce := bytes.Repeat([]byte{salt}, 32)
		ks, err := kit.PedersenHonest(privs, pubs, th, nonce)
		if err != nil {
			return nil, err
		}
		for i := range ks {
			out[i] = ks[i]
		}
		return out, nil
	}
	longs, err := mk(1)
	if err != nil {
		return viol("setup", "setup/dkg-long-failed", "honest set-up DKG failed: %v", err)
	}
	rands, err := mk(2)
	if err != nil {
		return viol("setup", "setup/dkg-random-failed", "honest set-up DKG failed: %v", err)
	}
	var rands2 []dss.DistKeyShare // another session's one-time key, built lazily

	// ---- independent expectations ----
	Rb, _ := rands[0].Commitments()[0].MarshalBinary()
	Ab, _ := longs[0].Commitments()[0].MarshalBinary()
	hOf := func(m []byte) *big.Int {
		h := sha512.New()
		h.Write(Rb)
		h.Write(Ab)
		h.Write(m)
		d := h.Sum(nil)
		be := make([]byte, len(d))
		for i := range d {
			be[len(d)-1-i] = d[i]
		}
		return new(big.Int).Mod(new(big.Int).SetBytes(be), kit.L)
	}
	hb := hOf(msg)
	gammaFor := func(i int, h *big.Int, rs []dss.DistKeyShare) *big.Int {
		a := kit.ScalarBig(longs[i].PriShare().V)
		b := kit.ScalarBig(rs[i].PriShare().V)
		g := new(big.Int).Mul(h, a)
		g.Add(g, b)
		return g.Mod(g, kit.L)
	}
	idx := make([]uint32, th)
	ys := make([]*big.Int, th)
	for i := 0; i < th; i++ {
		idx[i] = longs[i].PriShare().I
		ys[i] = gammaFor(i, hb, rands)
	}
	gamma := kit.LagrangeAt0(idx, ys)
	expSig := append(append([]byte{}, Rb...), le32(gamma)...)
	if !ed25519.Verify(ed25519.PublicKey(Ab), msg, expSig) {
		return viol("setup", "setup/expected-signature-invalid", "signature computed independently from the DKG shares does not verify under crypto/ed25519: DKG output inconsistent")
	}

	// ---- nodes ----
	nodes := make([]*node, n)
	newDSS := func(i int) (*dss.DSS, error) {
		return dss.NewDSS(kit.Ed(), privs[i], kit.CopyPoints(suite, pubs), longs[i], rands[i], kit.CopyBytes(msg), uint32(th))
	}
	for i := range nodes {
		d, err := newDSS(i)
		if err != nil {
			return viol("setup", "setup/newdss", "NewDSS failed for honest participant %d: %v", i, err)
		}
		nodes[i] = &node{d: d, accepted: map[uint32]bool{}}
	}
	silent := map[int]bool{}
	for _, p := range t.Perm("cfg.byz", n)[:nByz] {
		silent[p] = true
	}
	net := kit.NewNet(t, info, cfg)

	signPartial := func(signer int, I uint32, V kyber.Scalar, sid []byte) *wire {
		ps := &dss.PartialSig{Partial: &share.PriShare{I: I, V: V}, SessionID: sid}
		sig, err := schnorr.Sign(suite, privs[signer], ps.Hash(suite))
		if err != nil {
			panic("harness: schnorr sign: " + err.Error())
		}
		vb, _ := V.MarshalBinary()
		return &wire{I: I, V: vb, Sid: kit.CopyBytes(sid), Sig: sig}
	}
	// the session id is public; the adversary reads it off a scratch participant object
	var sessionSid []byte
	if sd, err := newDSS(0); err == nil {
		if ps, err := sd.PartialSig(); err == nil {
			sessionSid = kit.CopyBytes(ps.SessionID)
		}
	}
	if sessionSid == nil {
		return viol("setup", "setup/session-id", "cannot obtain session id")
	}
	var honestWires = map[int]*wire{}

	corrupt := func(w *wire) *wire {
		c := cloneWire(w).(*wire)
		switch t.Intn("net.corrupt", 4) {
		case 0:
			b := t.Intn("net.corrupt", len(c.V)*8)
			c.V[b/8] ^= 1 << (b % 8)
		case 1:
			c.I ^= 1 << t.Intn("net.corrupt", 4)
		case 2:
			if len(c.Sid) > 0 {
				b := t.Intn("net.corrupt", len(c.Sid)*8)
				c.Sid[b/8] ^= 1 << (b % 8)
			}
		case 3:
			switch t.Intn("net.corrupt", 3) {
			case 0:
				b := t.Intn("net.corrupt", len(c.Sig)*8)
				c.Sig[b/8] ^= 1 << (b % 8)
			case 1:
				c.Sig = c.Sig[:t.Intn("net.corrupt", len(c.Sig))]
			case 2:
				c.Sig = append(c.Sig, byte(t.Intn("net.corrupt", 256)))
			}
		}
		c.valid = false
		c.kind = w.kind + "+corrupted"
		info.Fault("corrupt")
		return c
	}
	bcast := func(from int, w *wire) {
		for to := 0; to < n; to++ {
			if to == from && !echo {
				continue
			}
			if to == from {
				info.Fault("self-echo")
			}
			m := w
			if corruptPm > 0 && t.Bool("net.corrupt", corruptPm) {
				m = corrupt(w)
			}
			net.Send(from, to, "psig", m, cloneWire)
		}
	}
	for i := 0; i < n; i++ {
		if silent[i] {
			info.ByzFired("silent-participant")
			continue
		}
		net.After(int64(t.Intn("sched.wake", 8))*500_000, i, "wake", nil)
	}
	for k := 0; k < nInject; k++ {
		net.After(int64(1+t.Intn("sched.inject", 30))*500_000, -1, "inject", nil)
	}

	checkSig := func(i int) *core.Violation {
		nd := nodes[i]
		if !nd.d.EnoughPartialSig() {
			return nil
		}
		var sig []byte
		var err error
		if p := core.Guard(func() { sig, err = nd.d.Signature() }); p != nil {
			return viol("totality", "signature/panic", "node %d: Signature() panicked: %v", i, p)
		}
		if err != nil {
			if len(nd.accepted) >= th {
				return viol("liveness", "signature/refused-with-t-valid", "node %d holds %d distinct valid partials (t=%d) but Signature() failed: %v", i, len(nd.accepted), th, err)
			}
			info.Probe("enough-but-not-distinct")
			return nil
		}
		if len(nd.accepted) < th {
			return viol("threshold", "signature/from-fewer-than-t", "node %d produced a signature from %d distinct valid partials, t=%d", i, len(nd.accepted), th)
		}
		if !bytes.Equal(sig, expSig) {
			return viol("uniqueness", "signature/differs-from-unique", "node %d signature %x differs from the unique signature %x", i, sig, expSig)
		}
		pub := longs[0].Commitments()[0]
		if err := dss.Verify(pub, msg, sig); err != nil {
			return viol("verify", "signature/dss-verify-rejects", "node %d: dss.Verify: %v", i, err)
		}
		if err := eddsa.Verify(pub, msg, sig); err != nil {
			return viol("verify", "signature/eddsa-verify-rejects", "node %d: eddsa.Verify: %v", i, err)
		}
		if err := schnorr.VerifyWithChecks(suite, Ab, msg, sig); err != nil {
			// schnorr uses a different hash (sha512 over R||A||msg too); recorded as probe only
			info.Probe("schnorr-verifywithchecks-rejects")
		}
		if !ed25519.Verify(ed25519.PublicKey(Ab), msg, sig) {
			return viol("verify", "signature/crypto-ed25519-rejects", "node %d: crypto/ed25519 rejects the signature", i)
		}
		if nd.sig == nil {
			info.Probe("node-signed")
			info.Logf("node %d signs with %d partials: %x", i, len(nd.accepted), sig)
		}
		nd.sig = sig
		return nil
	}

	for steps := 0; steps < 2000; steps++ {
		ev, ok := net.Next()
		if !ok {
			break
		}
		switch ev.Kind {
		case "wake":
			i := ev.To
			nd := nodes[i]
			var ps *dss.PartialSig
			var err error
			if p := core.Guard(func() { ps, err = nd.d.PartialSig() }); p != nil {
				return viol("totality", "partialsig/panic", "node %d PartialSig panicked: %v", i, p)
			}
			if err != nil {
				return viol("completeness", "partialsig/error", "node %d PartialSig: %v", i, err)
			}
			nd.woke = true
			nd.accepted[uint32(i)] = true
			vb, _ := ps.Partial.V.MarshalBinary()
			w := &wire{I: ps.Partial.I, V: vb, Sid: kit.CopyBytes(ps.SessionID), Sig: kit.CopyBytes(ps.Signature), valid: true, kind: "honest"}
			if ps.Partial.I != uint32(i) {
				return viol("completeness", "partialsig/wrong-index", "node %d produced partial with index %d", i, ps.Partial.I)
			}
			if g := gammaFor(i, hb, rands); !bytes.Equal(vb, le32(g)) {
				return viol("completeness", "partialsig/wrong-value", "node %d partial %x != beta+h*alpha %x", i, vb, le32(g))
			}
			if !bytes.Equal(ps.SessionID, sessionSid) {
				return viol("completeness", "partialsig/session-id-differs", "node %d session id differs between participants", i)
			}
			honestWires[i] = w
			info.Logf("t=%d wake %d", net.Now, i)
			info.SigAdd("w%d", i)
			bcast(i, w)
			if v := checkSig(i); v != nil {
				return v
			}
			if crashPm > 0 && t.Bool("sched.crash", crashPm) {
				net.After(int64(1+t.Intn("sched.crash", 10))*700_000, i, "crash", nil)
			}
		case "crash":
			i := ev.To
			d, err := newDSS(i)
			if err != nil {
				return viol("setup", "setup/newdss", "NewDSS after restart: %v", err)
			}
			nodes[i].d = d
			nodes[i].accepted = map[uint32]bool{}
			nodes[i].crashed++
			nodes[i].woke = false
			info.Fault("crash-restart")
			info.Logf("t=%d crash-restart %d", net.Now, i)
			info.SigAdd("c%d", i)
			net.After(int64(t.Intn("sched.crash", 6))*600_000, i, "wake", nil)
		case "inject":
			owner := t.Intn("byz", n) // key the adversary signs with (a corrupted participant)
			victim := t.Intn("byz", n)
			to := t.Intn("byz", n)
			var w *wire
			kind := t.Intn("byz", 9)
			switch kind {
			case 0: // wrong scalar under own index
				w = signPartial(owner, uint32(owner), kit.ScalarFromTape(suite, t, "byz.val"), sessionSid)
				w.kind = "wrong-scalar"
			case 1: // somebody else's valid scalar under own index
				if victim == owner {
					victim = (owner + 1) % n
				}
				w = signPartial(owner, uint32(owner), kit.BigScalar(suite, gammaFor(victim, hb, rands)), sessionSid)
				w.kind = "others-scalar-own-index"
			case 2: // out-of-range index
				I := uint32(n + t.Intn("byz", 3))
				if t.Bool("byz", 300) {
					I = ^uint32(0)
				}
				w = signPartial(owner, I, kit.BigScalar(suite, gammaFor(owner, hb, rands)), sessionSid)
				w.kind = "index-out-of-range"
			case 3: // correct scalar and index of victim, signed by another key
				if victim == owner {
					victim = (owner + 1) % n
				}
				w = signPartial(owner, uint32(victim), kit.BigScalar(suite, gammaFor(victim, hb, rands)), sessionSid)
				w.kind = "forged-signer"
			case 4: // partial of another session (other one-time key), authentic for that session
				if rands2 == nil {
					r2, err := mk(3)
					if err != nil {
						return viol("setup", "setup/dkg-random2-failed", "%v", err)
					}
					rands2 = r2
				}
				other := rands2[owner]
				crafted := false
				if cs := rands[owner].Commitments(); len(cs) >= 3 && t.Bool("byz.samer", 400) {
					// another session whose one-time sharing f' has the SAME public key R = f'(0)G and the
					// same share for the owner: f'(x) = f(x) + c*x*(x - x_owner). Everything that only
					// looks at R, the long-term key, the message or the owner's share coincides; the
					// sessions differ in the other commitments, hence in their session ids. (Seed C12h:
					// the session id was reduced to H(A || R).)
					c := kit.BigScalar(suite, new(big.Int).SetBytes(t.Bytes("byz.samer", 31)))
					xo := suite.Scalar().SetInt64(int64(owner + 1))
					cs2 := kit.CopyPoints(suite, cs)
					cs2[1] = suite.Point().Sub(cs2[1], suite.Point().Mul(suite.Scalar().Mul(c, xo), nil))
					cs2[2] = suite.Point().Add(cs2[2], suite.Point().Mul(c, nil))
					other = &plainDKS{sh: &share.PriShare{I: uint32(owner), V: rands[owner].PriShare().V.Clone()}, commits: cs2}
					crafted = true
				}
				d2, err := dss.NewDSS(kit.Ed(), privs[owner], pubs, longs[owner], other, msg, uint32(th))
				if err != nil {
					return viol("setup", "setup/newdss", "%v", err)
				}
				ps, _ := d2.PartialSig()
				vb, _ := ps.Partial.V.MarshalBinary()
				w = &wire{I: ps.Partial.I, V: vb, Sid: ps.SessionID, Sig: ps.Signature}
				if t.Bool("byz", 400) && !crafted { // (crafted: the value is the valid one, a relabelled copy would simply be valid)
					// re-label it with this session's id and re-sign (the owner key is the adversary's)
					w = signPartial(owner, uint32(owner), ps.Partial.V, sessionSid)
				}
				w.kind = "cross-session-onetime-key"
				if crafted {
					w.kind = "cross-session-onetime-key-same-R-same-share"
				}
			case 5: // same keys, other message: session id identical, value differs
				m2 := append(kit.CopyBytes(msg), 0x01)
				d2, err := dss.NewDSS(kit.Ed(), privs[owner], pubs, longs[owner], rands[owner], m2, uint32(th))
				if err != nil {
					return viol("setup", "setup/newdss", "%v", err)
				}
				ps, _ := d2.PartialSig()
				vb, _ := ps.Partial.V.MarshalBinary()
				w = &wire{I: ps.Partial.I, V: vb, Sid: ps.SessionID, Sig: ps.Signature}
				w.kind = "cross-session-other-message"
			case 6: // replay of a valid partial already broadcast (duplicate)
				hw := honestWires[victim]
				if hw == nil {
					continue
				}
				w = cloneWire(hw).(*wire)
				w.kind = "replayed-valid"
			case 7: // structural garbage
				w = signPartial(owner, uint32(owner), kit.BigScalar(suite, gammaFor(owner, hb, rands)), sessionSid)
				switch t.Intn("byz", 3) {
				case 0:
					w.Sig = nil
				case 1:
					w.Sid = nil
				case 2:
					w.Sig = t.Bytes("byz.val", 64)
				}
				w.kind = "structural-garbage"
			case 8: // a silent participant's valid partial, late (valid; must count)
				w = signPartial(owner, uint32(owner), kit.BigScalar(suite, gammaFor(owner, hb, rands)), sessionSid)
				w.valid = true
				w.kind = "late-valid"
			}
			info.ByzFired(w.kind)
			info.Logf("t=%d inject %s I=%d -> %d", net.Now, w.kind, w.I, to)
			if t.Bool("byz", 500) {
				for q := 0; q < n; q++ {
					net.Send(-1, q, "psig", w, cloneWire)
				}
			} else {
				net.Send(-1, to, "psig", w, cloneWire)
			}
		case "psig":
			i := ev.To
			nd := nodes[i]
			w := ev.Payload.(*wire)
			V := suite.Scalar()
			if err := V.UnmarshalBinary(w.V); err != nil {
				info.Probe("undecodable-scalar-dropped")
				continue
			}
			ps := &dss.PartialSig{Partial: &share.PriShare{I: w.I, V: V}, SessionID: w.Sid, Signature: w.Sig}
			var err error
			if p := core.Guard(func() { err = nd.d.ProcessPartialSig(ps) }); p != nil {
				return viol("totality", "process/panic", "node %d ProcessPartialSig(%s) panicked: %v", i, w.kind, p)
			}
			expectOK := w.valid && int(w.I) < n && !nd.accepted[w.I]
			verdict := "rej"
			if err == nil {
				verdict = "acc"
			}
			info.Logf("t=%d deliver psig %s I=%d from=%d to=%d copy=%d -> %s", net.Now, w.kind, w.I, ev.From, i, ev.Copy, verdict)
			info.SigAdd("d%d:%d:%s:%s", i, w.I, w.kind, verdict)
			if err == nil && !expectOK {
				why := "invalid"
				if w.valid && nd.accepted[w.I] {
					why = "duplicate"
				}
				return viol("rejects-bad", "process/accepted-"+why+"/"+baseKind(w.kind), "node %d accepted a %s partial (%s, index %d)", i, why, w.kind, w.I)
			}
			if err != nil && expectOK {
				return viol("accepts-good", "process/rejected-valid/"+baseKind(w.kind), "node %d rejected a first valid partial of index %d (%s): %v", i, w.I, w.kind, err)
			}
			if err == nil {
				nd.accepted[w.I] = true
				info.Probe("partial-accepted")
			} else {
				info.Probe("partial-rejected")
				if w.valid {
					info.Probe("duplicate-rejected")
				}
			}
			if v := checkSig(i); v != nil {
				return v
			}
		}
	}
	// bounded liveness + agreement at quiescence
	for i, nd := range nodes {
		if len(nd.accepted) >= th && nd.sig == nil {
			// Signature is only attempted after a delivery; a node restarted after its last delivery has nothing
			if v := checkSig(i); v != nil {
				return v
			}
			if nd.sig == nil {
				return viol("liveness", "liveness/not-signed-at-quiescence", "node %d holds %d>=t valid partials but never produced a signature", i, len(nd.accepted))
			}
		}
		if nd.sig != nil {
			info.Probe("signed-at-end")
		}
		if honestClass && nd.sig == nil {
			return viol("liveness", "liveness/honest-class-not-signed", "fault-free run: node %d did not produce a signature (holds %d partials, t=%d)", i, len(nd.accepted), th)
		}
	}
	// ---- the next session of the same process, after the long-term key was RESHARED (same public key,
	// new polynomial and shares) with a fresh one-time key: valid partials are accepted, partials made
	// with the outdated shares are refused (seed C12f: public shares memoised per public key) ----
	if t.Bool("cfg.next", 250) {
		secret := kit.BigScalar(suite, kit.LagrangeAt0(idx, func() []*big.Int {
			o := make([]*big.Int, th)
			for i := 0; i < th; i++ {
				o[i] = kit.ScalarBig(longs[i].PriShare().V)
			}
			return o
		}()))
		pri := share.NewPriPoly(suite, uint32(th), secret, suite.XOF(t.Bytes("cfg.next", 16)))
		pub := pri.Commit(suite.Point().Base())
		_, commits := pub.Info()
		longs2 := make([]dss.DistKeyShare, n)
		for i, sh := range pri.Shares(uint32(n)) {
			longs2[i] = &plainDKS{sh: sh, commits: commits}
		}
		rands3, err := mk(3)
		if err != nil {
			return viol("setup", "setup/dkg-random-failed", "honest set-up DKG failed: %v", err)
		}
		msg2 := append(kit.CopyBytes(msg), 0x42)
		ds := make([]*dss.DSS, n)
		ps := make([]*dss.PartialSig, n)
		for i := 0; i < n; i++ {
			d, err := dss.NewDSS(kit.Ed(), privs[i], kit.CopyPoints(suite, pubs), longs2[i], rands3[i], kit.CopyBytes(msg2), uint32(th))
			if err != nil {
				return viol("setup", "setup/newdss", "NewDSS (session after resharing) failed for participant %d: %v", i, err)
			}
			ds[i] = d
			if ps[i], err = d.PartialSig(); err != nil {
				return viol("setup", "setup/partialsig", "PartialSig (session after resharing): %v", err)
			}
		}
		// a partial made with the OUTDATED long-term share of participant 1, correctly signed by it
		if stale, err := dss.NewDSS(kit.Ed(), privs[1], kit.CopyPoints(suite, pubs), longs[1], rands3[1], kit.CopyBytes(msg2), uint32(th)); err == nil {
			if sp, err := stale.PartialSig(); err == nil && !sp.Partial.V.Equal(ps[1].Partial.V) {
				if ds[0].ProcessPartialSig(sp) == nil {
					return viol("rejects-bad", "next-session/accepted-outdated-share", "after a resharing of the long-term key, node 0 accepted a partial of participant 1 made with its share from before the resharing")
				}
			}
		}
		for j := 1; j < n; j++ {
			if err := ds[0].ProcessPartialSig(ps[j]); err != nil {
				return viol("accepts-good", "next-session/rejected-valid", "after a resharing of the long-term key (same public key), node 0 rejects the valid partial of participant %d: %v", j, err)
			}
		}
		sig2, err := ds[0].Signature()
		if err != nil {
			return viol("liveness", "next-session/no-signature", "session after resharing: Signature(): %v", err)
		}
		if err := eddsa.Verify(longs[0].Commitments()[0], msg2, sig2); err != nil {
			return viol("verify", "next-session/signature-invalid", "session after resharing: the signature does not verify under the unchanged public key: %v", err)
		}
		info.Fault("next-session-after-resharing")
	}
	return nil
}

func baseKind(k string) string {
	for i := 0; i < len(k); i++ {
		if k[i] == '+' {
			return k[:i] + "+corrupted"
		}
	}
	return k
}

// plainDKS is a distributed key share given by its parts (a resharing produces exactly this).
type plainDKS struct {
	sh      *share.PriShare
	commits []kyber.Point
}

func (p *plainDKS) PriShare() *share.PriShare  { return p.sh }
func (p *plainDKS) Commitments() []kyber.Point { return p.commits }
