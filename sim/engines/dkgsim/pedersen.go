package dkgsim

import (
	"bytes"
	"crypto/sha256"
	"fmt"
	"math/big"
	"sort"
	"sync"
	"testing"
	"testing/synctest"
	"time"

	"go.dedis.ch/kyber/v4"
	"go.dedis.ch/kyber/v4/encrypt/ecies"
	"go.dedis.ch/kyber/v4/share"
	pdkg "go.dedis.ch/kyber/v4/share/dkg/pedersen"
	"go.dedis.ch/kyber/v4/sign/schnorr"

	"verif/sim/core"
	"verif/sim/kit"
)

// ---------------------------------------------------------------- parties

type party struct {
	id         int
	priv       kyber.Scalar
	pub        kyber.Point
	oidx, nidx int    // index in the old / new group, -1 when absent
	faulty     string // "", "crash", "byz"
	crashRound int    // crash-stop before the tick of this round (0=deal,1=response,2=justification)
	beh        map[string]bool
	oldShare   *pdkg.DistKeyShare

	gen    *pdkg.DistKeyGenerator // direct mode
	proto  *pdkg.Protocol         // protocol mode
	board  *simBoard
	phCh   chan pdkg.Phase
	exited bool
	done   bool
	res    *pdkg.Result
	err    error
	ticked int // number of phase ticks received
}

func (p *party) inOld() bool  { return p.oidx >= 0 }
func (p *party) inNew() bool  { return p.nidx >= 0 }
func (p *party) honest() bool { return p.faulty == "" }
func (p *party) crashedAt(round int) bool {
	return p.faulty == "crash" && round >= p.crashRound
}

type pedWorld struct {
	t        *core.Tape
	info     *core.RunInfo
	parties  []*party
	oldNodes []pdkg.Node
	newNodes []pdkg.Node
	oldT     int
	newT     int
	reshare  bool
	fast     bool
	echo     bool
	protocol bool
	nonce    []byte
	oldPub   []kyber.Point // commitments of the old distributed key (resharing)
	oldSec   kyber.Scalar  // old distributed secret, known to the harness only (resharing)

	// wire log
	dealsSent map[uint32][]*pdkg.DealBundle // by dealer index: distinct bundles broadcast with a valid signature
	// expectations
	fatal       map[uint32]string          // dealer index -> why it must be excluded
	badDealTo   map[uint32]map[uint32]bool // dealer -> holder index that received an invalid share
	badJustify  map[uint32]bool            // dealer does not justify validly
	holderOut   map[uint32]string          // new-holder index -> response rule it broke (probe only: C11 says nothing about holders)
	equivocated map[uint32]bool            // dealer sent two different bundles (membership then ambiguous)
	mu          sync.Mutex
	outbox      []outMsg
	round       int
	dupPm       int
	lateDupPm   int
	holePm      int
	lateCopies  [][]delivery
	variantName string
	timePhaser  bool
}

type outMsg struct {
	from *party
	pkt  pdkg.Packet
}

type delivery struct {
	to   *party
	pkt  pdkg.Packet
	tick pdkg.Phase // when pkt==nil this is a tick
	copy int
}

func pviol(oracle, class, format string, a ...any) *core.Violation {
	return &core.Violation{Property: "C11", Engine: "dkgsim", Oracle: oracle, Class: "C11/" + class, Detail: fmt.Sprintf(format, a...)}
}

// ---------------------------------------------------------------- deep copies (bytes across node boundaries)

func copyDeal(g kyber.Group, b *pdkg.DealBundle) *pdkg.DealBundle {
	c := &pdkg.DealBundle{DealerIndex: b.DealerIndex, SessionID: kit.CopyBytes(b.SessionID), Signature: kit.CopyBytes(b.Signature)}
	for _, d := range b.Deals {
		c.Deals = append(c.Deals, pdkg.Deal{ShareIndex: d.ShareIndex, EncryptedShare: kit.CopyBytes(d.EncryptedShare)})
	}
	if b.Public != nil {
		c.Public = kit.CopyPoints(g, b.Public)
	}
	return c
}
func copyResp(b *pdkg.ResponseBundle) *pdkg.ResponseBundle {
	c := &pdkg.ResponseBundle{ShareIndex: b.ShareIndex, SessionID: kit.CopyBytes(b.SessionID), Signature: kit.CopyBytes(b.Signature)}
	c.Responses = append(c.Responses, b.Responses...)
	return c
}
func copyJust(g kyber.Group, b *pdkg.JustificationBundle) *pdkg.JustificationBundle {
	c := &pdkg.JustificationBundle{DealerIndex: b.DealerIndex, SessionID: kit.CopyBytes(b.SessionID), Signature: kit.CopyBytes(b.Signature)}
	for _, j := range b.Justifications {
		c.Justifications = append(c.Justifications, pdkg.Justification{ShareIndex: j.ShareIndex, Share: kit.CopyScalar(g, j.Share)})
	}
	return c
}
func copyPkt(g kyber.Group, p pdkg.Packet) pdkg.Packet {
	switch b := p.(type) {
	case *pdkg.DealBundle:
		return copyDeal(g, b)
	case *pdkg.ResponseBundle:
		return copyResp(b)
	case *pdkg.JustificationBundle:
		return copyJust(g, b)
	}
	return p
}
func pktKind(p pdkg.Packet) string {
	switch p.(type) {
	case *pdkg.DealBundle:
		return "deal"
	case *pdkg.ResponseBundle:
		return "resp"
	case *pdkg.JustificationBundle:
		return "just"
	}
	return "?"
}
func pktHash(p pdkg.Packet) string {
	h, _ := p.Hash()
	return fmt.Sprintf("%x", h[:6])
}

func (w *pedWorld) sign(p *party, pkt pdkg.Packet) {
	h, _ := pkt.Hash()
	sig, _ := schnorr.NewScheme(kit.Ed()).Sign(p.priv, h)
	switch b := pkt.(type) {
	case *pdkg.DealBundle:
		b.Signature = sig
	case *pdkg.ResponseBundle:
		b.Signature = sig
	case *pdkg.JustificationBundle:
		b.Signature = sig
	}
}

// ---------------------------------------------------------------- Byzantine menu

var dealerMenu = []string{"deal-readdressed-outside", "deal-absent", "deal-wrong-share", "deal-garbage-cipher", "deal-swapped", "deal-index-outside", "deal-poly-length",
	"deal-wrong-session", "deal-equivocate", "deal-thrice", "deal-bad-signature", "deal-foreign-index", "deal-wrong-constant"}
var holderMenu = []string{"resp-false-complaint", "resp-success-in-slow-mode", "resp-silent", "resp-unknown-dealer", "resp-conflicting", "resp-wrong-session", "resp-complaint-and-violating"}
var justMenu = []string{"just-wrong-share", "just-index-outside", "just-missing", "just-wrong-session", "just-twice"}

func (w *pedWorld) holderPub(nidx uint32) kyber.Point {
	for _, n := range w.newNodes {
		if n.Index == nidx {
			return n.Public
		}
	}
	return nil
}

func (w *pedWorld) partyByNew(nidx uint32) *party {
	for _, p := range w.parties {
		if p.nidx == int(nidx) {
			return p
		}
	}
	return nil
}
func (w *pedWorld) partyByOld(oidx uint32) *party {
	for _, p := range w.parties {
		if p.oidx == int(oidx) {
			return p
		}
	}
	return nil
}

func (w *pedWorld) markBadDeal(dealer, holder uint32) {
	if w.badDealTo[dealer] == nil {
		w.badDealTo[dealer] = map[uint32]bool{}
	}
	w.badDealTo[dealer][holder] = true
}

// mutate applies the party's Byzantine behaviours to a packet it is about to
// broadcast and returns the packets that actually go on the wire.
func (w *pedWorld) mutate(p *party, pkt pdkg.Packet) []pdkg.Packet {
	g := kit.Ed()
	t := w.t
	if p.faulty != "byz" {
		return []pdkg.Packet{pkt}
	}
	switch b := pkt.(type) {
	case *pdkg.DealBundle:
		b = copyDeal(g, b)
		me := uint32(p.oidx)
		out := []pdkg.Packet{b}
		resign := false
		// choose a victim holder (not ourselves)
		pickVictim := func() int {
			if len(b.Deals) == 0 {
				return -1
			}
			return t.Intn("byz.pick", len(b.Deals))
		}
		if p.beh["deal-absent"] {
			w.info.ByzFired("deal-absent")
			w.fatal[me] = "no deal bundle"
			return nil
		}
		if p.beh["deal-wrong-share"] {
			if k := pickVictim(); k >= 0 {
				s := kit.ScalarFromTape(g, t, "byz.val")
				msg, _ := s.MarshalBinary()
				if c, err := ecies.Encrypt(g, w.holderPub(b.Deals[k].ShareIndex), msg, sha256.New); err == nil {
					b.Deals[k].EncryptedShare = c
					w.markBadDeal(me, b.Deals[k].ShareIndex)
					w.info.ByzFired("deal-wrong-share")
					resign = true
				}
			}
		}
		if p.beh["deal-garbage-cipher"] {
			if k := pickVictim(); k >= 0 {
				b.Deals[k].EncryptedShare = t.Bytes("byz.val", 10+t.Intn("byz.pick", 90))
				w.markBadDeal(me, b.Deals[k].ShareIndex)
				w.info.ByzFired("deal-garbage-cipher")
				resign = true
			}
		}
		if p.beh["deal-swapped"] && len(b.Deals) >= 2 {
			i := t.Intn("byz.pick", len(b.Deals))
			j := (i + 1 + t.Intn("byz.pick", len(b.Deals)-1)) % len(b.Deals)
			b.Deals[i].EncryptedShare, b.Deals[j].EncryptedShare = b.Deals[j].EncryptedShare, b.Deals[i].EncryptedShare
			w.markBadDeal(me, b.Deals[i].ShareIndex)
			w.markBadDeal(me, b.Deals[j].ShareIndex)
			w.info.ByzFired("deal-swapped")
			resign = true
		}
		if p.beh["deal-index-outside"] {
			bad := uint32(1000 + t.Intn("byz.pick", 5))
			extra := pdkg.Deal{ShareIndex: bad, EncryptedShare: t.Bytes("byz.val", 60)}
			if t.Bool("byz.pick", 500) && len(b.Deals) > 0 {
				b.Deals = append([]pdkg.Deal{extra}, b.Deals...)
			} else {
				b.Deals = append(b.Deals, extra)
			}
			// nobody honest is wronged by a surplus deal: membership is left to the agreement oracle
			w.info.ByzFired("deal-index-outside")
			resign = true
		}
		if p.beh["deal-readdressed-outside"] {
			// the deal of one holder is re-addressed to an index outside the group; the other holders keep valid deals
			if k := pickVictim(); k >= 0 {
				victim := b.Deals[k].ShareIndex
				b.Deals[k].ShareIndex = uint32(1000 + t.Intn("byz.pick", 5))
				w.markBadDeal(me, victim)
				w.info.ByzFired("deal-readdressed-outside")
				resign = true
			}
		}
		if p.beh["deal-poly-length"] {
			if t.Bool("byz.pick", 500) && len(b.Public) > 1 {
				b.Public = b.Public[:len(b.Public)-1]
			} else {
				b.Public = append(b.Public, g.Point().Mul(kit.ScalarFromTape(g, t, "byz.val"), nil))
			}
			w.fatal[me] = "public polynomial of wrong length"
			w.info.ByzFired("deal-poly-length")
			resign = true
		}
		if p.beh["deal-wrong-session"] {
			b.SessionID = t.OtherBytes("byz.val", w.nonce, 32)
			w.fatal[me] = "wrong session id in deal bundle"
			w.info.ByzFired("deal-wrong-session")
			resign = true
		}
		if p.beh["deal-wrong-constant"] && w.reshare {
			// a fresh polynomial unrelated to the old share, dealt consistently
			poly := share.NewPriPoly(g, uint32(w.newT), kit.ScalarFromTape(g, t, "byz.val"), g.RandomStream())
			_, commits := poly.Commit(g.Point().Base()).Info()
			b.Public = commits
			b.Deals = nil
			for _, n := range w.newNodes {
				if p.nidx == int(n.Index) {
					continue
				}
				msg, _ := poly.Eval(n.Index).V.MarshalBinary()
				c, _ := ecies.Encrypt(g, n.Public, msg, sha256.New)
				b.Deals = append(b.Deals, pdkg.Deal{ShareIndex: n.Index, EncryptedShare: c})
			}
			w.fatal[me] = "constant term is not the commitment of the old share"
			w.info.ByzFired("deal-wrong-constant")
			resign = true
		}
		if resign {
			w.sign(p, b)
		}
		if p.beh["deal-equivocate"] {
			b2 := copyDeal(g, b)
			if len(b2.Deals) > 0 {
				k := t.Intn("byz.pick", len(b2.Deals))
				// a different, equally valid-looking bundle: re-encrypt one share
				s := kit.ScalarFromTape(g, t, "byz.val")
				msg, _ := s.MarshalBinary()
				c, _ := ecies.Encrypt(g, w.holderPub(b2.Deals[k].ShareIndex), msg, sha256.New)
				b2.Deals[k].EncryptedShare = c
			} else {
				b2.SessionID = append(b2.SessionID, 0)
			}
			w.sign(p, b2)
			out = append(out, b2)
			w.equivocated[me] = true
			w.info.ByzFired("deal-equivocate")
		}
		if p.beh["deal-thrice"] {
			out = append(out, copyDeal(g, b), copyDeal(g, b))
			w.info.ByzFired("deal-thrice")
		}
		if p.beh["deal-bad-signature"] && w.protocol {
			// either garbage, or a signature that IS valid - for the same bundle under another session id
			// (a bundle of an earlier run replayed with its session field rewritten; lesson of seed C10h)
			replayed := t.Bool("byz.replay", 500)
			for _, o := range out {
				db := o.(*pdkg.DealBundle)
				if replayed {
					real := db.SessionID
					db.SessionID = t.OtherBytes("byz.val", w.nonce, 32)
					w.sign(p, db)
					db.SessionID = real
				} else {
					db.Signature = t.Bytes("byz.val", 64)
				}
			}
			w.fatal[me] = "deal bundle with invalid signature"
			w.info.ByzFired("deal-bad-signature")
		}
		if p.beh["deal-foreign-index"] && w.protocol {
			// an extra bundle claiming an honest dealer's index, signed with our key: must be dropped
			for _, q := range w.parties {
				if q.honest() && q.inOld() && q != p {
					f := copyDeal(g, b)
					f.DealerIndex = uint32(q.oidx)
					w.sign(p, f)
					out = append(out, f)
					w.info.ByzFired("deal-foreign-index")
					break
				}
			}
		}
		return out
	case *pdkg.ResponseBundle:
		b = copyResp(b)
		return w.mutateResp(p, b)
	case *pdkg.JustificationBundle:
		b = copyJust(g, b)
		me := uint32(p.oidx)
		out := []pdkg.Packet{b}
		if p.beh["just-missing"] {
			w.badJustify[me] = true
			w.info.ByzFired("just-missing")
			return nil
		}
		if p.beh["just-wrong-share"] && len(b.Justifications) > 0 {
			k := t.Intn("byz.pick", len(b.Justifications))
			b.Justifications[k].Share = kit.ScalarFromTape(g, t, "byz.val")
			if q := w.partyByNew(b.Justifications[k].ShareIndex); q != nil && q.honest() && w.badDealTo[me][b.Justifications[k].ShareIndex] {
				w.fatal[me] = "invalid deal to an honest holder answered with a wrong share"
			}
			w.info.ByzFired("just-wrong-share")
		}
		if p.beh["just-index-outside"] {
			b.Justifications = append(b.Justifications, pdkg.Justification{ShareIndex: uint32(2000 + t.Intn("byz.pick", 3)), Share: kit.ScalarFromTape(g, t, "byz.val")})
			w.info.ByzFired("just-index-outside")
		}
		if p.beh["just-wrong-session"] {
			b.SessionID = t.OtherBytes("byz.val", w.nonce, 32)
			w.badJustify[me] = true
			w.info.ByzFired("just-wrong-session")
		}
		w.sign(p, b)
		if p.beh["just-twice"] {
			out = append(out, copyJust(g, b))
			w.info.ByzFired("just-twice")
		}
		return out
	}
	return []pdkg.Packet{pkt}
}

func (w *pedWorld) mutateResp(p *party, b *pdkg.ResponseBundle) []pdkg.Packet {
	t := w.t
	me := uint32(p.nidx)
	out := []pdkg.Packet{b}
	if p.beh["resp-silent"] {
		if w.fast {
			w.holderOut[me] = "no response in fast-sync mode"
		}
		w.info.ByzFired("resp-silent")
		return nil
	}
	if p.beh["resp-false-complaint"] {
		// complain about an honest dealer
		var hs []*party
		for _, q := range w.parties {
			if q.honest() && q.inOld() && q != p {
				hs = append(hs, q)
			}
		}
		// leaving dealers are the interesting targets in a resharing: prefer them
		var leaving []*party
		for _, q := range hs {
			if !q.inNew() {
				leaving = append(leaving, q)
			}
		}
		if len(leaving) > 0 && t.Bool("byz.pick", 700) {
			hs = leaving
		}
		// dealers whose OLD index is the NEW index of a renumbered staying member: old and new index
		// spaces overlap numerically, and code that compares the wrong one goes unnoticed while indices
		// coincide (seed C11j: a staying member skipped "its own" justification bundle by new index)
		var collide []*party
		for _, q := range hs {
			for _, h := range w.parties {
				if h != q && h.honest() && h.inOld() && h.inNew() && h.oidx != h.nidx && h.nidx == q.oidx {
					collide = append(collide, q)
					break
				}
			}
		}
		if len(collide) > 0 && t.Bool("byz.renum", 600) {
			hs = collide
		}
		if len(hs) > 0 {
			q := hs[t.Intn("byz.pick", len(hs))]
			found := false
			for i := range b.Responses {
				if b.Responses[i].DealerIndex == uint32(q.oidx) {
					b.Responses[i].Status = pdkg.Complaint
					found = true
				}
			}
			if !found {
				b.Responses = append(b.Responses, pdkg.Response{DealerIndex: uint32(q.oidx), Status: pdkg.Complaint})
			}
			w.info.ByzFired("resp-false-complaint")
		}
	}
	if p.beh["resp-success-in-slow-mode"] && !w.fast {
		var d uint32
		if len(w.oldNodes) > 0 {
			d = w.oldNodes[t.Intn("byz.pick", len(w.oldNodes))].Index
		}
		b.Responses = append(b.Responses, pdkg.Response{DealerIndex: d, Status: pdkg.Success})
		w.holderOut[me] = "success status outside fast-sync mode"
		w.info.ByzFired("resp-success-in-slow-mode")
	}
	if p.beh["resp-unknown-dealer"] {
		b.Responses = append(b.Responses, pdkg.Response{DealerIndex: uint32(3000 + t.Intn("byz.pick", 3)), Status: pdkg.Complaint})
		w.holderOut[me] = "response about an unknown dealer"
		w.info.ByzFired("resp-unknown-dealer")
	}
	if p.beh["resp-wrong-session"] {
		b.SessionID = t.OtherBytes("byz.val", w.nonce, 32)
		w.holderOut[me] = "response bundle with wrong session id"
		w.info.ByzFired("resp-wrong-session")
	}
	w.sign(p, b)
	if p.beh["resp-complaint-and-violating"] && len(b.Responses) == 0 {
		for _, q := range w.parties {
			if q.honest() && q.inOld() && q != p {
				b.Responses = append(b.Responses, pdkg.Response{DealerIndex: uint32(q.oidx), Status: pdkg.Complaint})
				break
			}
		}
	}
	if p.beh["resp-complaint-and-violating"] && len(b.Responses) > 0 {
		// two bundles from one holder: a well-formed one that complains about a dealer, and one that
		// breaks a rule (wrong session id). Receivers see them in different orders; what is recorded
		// must not depend on the order (seed C11m: bundles of an author evicted earlier IN THE SAME CALL
		// were skipped, so the complaint counted at some nodes only). Direct mode hands both over; the
		// Protocol driver keeps one packet per author.
		k := t.Intn("byz.pick", len(b.Responses))
		b.Responses[k].Status = pdkg.Complaint
		w.sign(p, b)
		b2 := copyResp(b)
		b2.SessionID = t.OtherBytes("byz.val", w.nonce, 32)
		w.sign(p, b2)
		out = append(out, b2)
		w.info.ByzFired("resp-complaint-and-violating")
	}
	if p.beh["resp-conflicting"] && w.protocol {
		b2 := copyResp(b)
		if len(b2.Responses) > 0 {
			k := t.Intn("byz.pick", len(b2.Responses))
			b2.Responses[k].Status = 1 - b2.Responses[k].Status
		} else if len(w.oldNodes) > 0 {
			b2.Responses = append(b2.Responses, pdkg.Response{DealerIndex: w.oldNodes[0].Index, Status: pdkg.Complaint})
		}
		w.sign(p, b2)
		out = append(out, b2)
		if w.fast {
			w.holderOut[me] = "two conflicting response bundles in fast-sync mode"
		}
		w.info.ByzFired("resp-conflicting")
	}
	return out
}

// ---------------------------------------------------------------- board / phaser owned by the simulator

type simBoard struct {
	w      *pedWorld
	p      *party
	dealCh chan pdkg.DealBundle
	respCh chan pdkg.ResponseBundle
	justCh chan pdkg.JustificationBundle
}

func (b *simBoard) push(pkt pdkg.Packet) {
	b.w.mu.Lock()
	b.w.outbox = append(b.w.outbox, outMsg{b.p, pkt})
	b.w.mu.Unlock()
}
func (b *simBoard) PushDeals(d *pdkg.DealBundle)                           { b.push(d) }
func (b *simBoard) PushResponses(r *pdkg.ResponseBundle)                   { b.push(r) }
func (b *simBoard) PushJustifications(j *pdkg.JustificationBundle)         { b.push(j) }
func (b *simBoard) IncomingDeal() <-chan pdkg.DealBundle                   { return b.dealCh }
func (b *simBoard) IncomingResponse() <-chan pdkg.ResponseBundle           { return b.respCh }
func (b *simBoard) IncomingJustification() <-chan pdkg.JustificationBundle { return b.justCh }

type simPhaser struct{ ch chan pdkg.Phase }

func (s *simPhaser) NextPhase() chan pdkg.Phase { return s.ch }

// ---------------------------------------------------------------- configuration

func (w *pedWorld) config(p *party) *pdkg.Config {
	g := kit.Ed()
	c := &pdkg.Config{Suite: g, Longterm: p.priv, Nonce: kit.CopyBytes(w.nonce), Auth: schnorr.NewScheme(kit.Ed()), FastSync: w.fast, Threshold: uint32(w.newT)}
	cp := func(ns []pdkg.Node) []pdkg.Node {
		out := make([]pdkg.Node, len(ns))
		for i, n := range ns {
			out[i] = pdkg.Node{Index: n.Index, Public: kit.CopyPoint(g, n.Public)}
		}
		return out
	}
	c.NewNodes = cp(w.newNodes)
	c.Log = &simLogger{w: w, id: p.id}
	if w.reshare {
		c.OldNodes = cp(w.oldNodes)
		c.OldThreshold = uint32(w.oldT)
		if p.oldShare != nil {
			c.Share = &pdkg.DistKeyShare{Commits: kit.CopyPoints(g, p.oldShare.Commits), Share: &share.PriShare{I: p.oldShare.Share.I, V: kit.CopyScalar(g, p.oldShare.Share.V)}}
		} else {
			c.PublicCoeffs = kit.CopyPoints(g, w.oldPub)
		}
	}
	return c
}

// record keeps the wire log used by the composition oracle.
func (w *pedWorld) record(pkt pdkg.Packet) {
	if b, ok := pkt.(*pdkg.DealBundle); ok {
		for _, x := range w.dealsSent[b.DealerIndex] {
			if pktHash(x) == pktHash(b) {
				return
			}
		}
		w.dealsSent[b.DealerIndex] = append(w.dealsSent[b.DealerIndex], copyDeal(kit.Ed(), b))
	}
}

// ---------------------------------------------------------------- protocol mode

func (w *pedWorld) runProtocol() (v *core.Violation) {
	defer func() {
		if r := recover(); r != nil {
			panic(fmt.Sprintf("harness: synctest bubble: %v", r))
		}
	}()
	synctest.Test(core.T, func(_ *testing.T) {
		v = w.protocolBubble()
	})
	return v
}

// protocolBubbleTime is the second Protocol-mode configuration: kyber's own TimePhaser drives every
// node under the bubble's fake clock, with pairwise distinct periods and start offsets (clock skew as a
// simulation parameter; distinct, so that no two timers ever fire at the same fake instant, which would
// hand the choice of who runs to the Go scheduler). A packet is delivered at the fake instant it was
// sent, in tape order, before the clock is allowed to advance to the next tick. With skew below a
// third of the period this is the phase-synchronous model again.
func (w *pedWorld) protocolBubbleTime() *core.Violation {
	g := kit.Ed()
	t := w.t
	info := w.info
	pdkg.VerifPermute = func(n int) []int { return t.Perm("sched.perm", n) }
	defer func() { pdkg.VerifPermute = nil }()
	const P = 100 * time.Second
	type clk struct {
		start, period time.Duration
	}
	clks := make([]clk, len(w.parties))
	order := t.Perm("sched.skew", len(w.parties))
	for i := range w.parties {
		// distinct offsets (< P/10) and periods (P .. 1.07 P)
		clks[i] = clk{start: time.Duration(order[i]+1) * 700 * time.Millisecond, period: P + time.Duration(order[(i+1)%len(order)]+1)*time.Second}
	}
	begin := time.Now()
	for i, p := range w.parties {
		p.board = &simBoard{w: w, p: p, dealCh: make(chan pdkg.DealBundle), respCh: make(chan pdkg.ResponseBundle), justCh: make(chan pdkg.JustificationBundle)}
		c := clks[i]
		ph := pdkg.NewTimePhaser(c.period)
		proto, err := pdkg.NewProtocol(w.config(p), p.board, ph, false)
		if err != nil {
			return pviol("setup", "setup/newprotocol/"+w.variantName, "NewProtocol for party %d: %v", p.id, err)
		}
		p.proto = proto
		go func() {
			time.Sleep(c.start)
			ph.Start()
		}()
	}
	info.Fault("clock-skew")
	tickOf := func(i int, now time.Duration) int { // number of ticks node i has received by `now`
		c := clks[i]
		if now < c.start {
			return 0
		}
		k := int((now-c.start)/c.period) + 1
		if k > 4 {
			k = 4
		}
		return k
	}
	// all tick instants, ascending
	var instants []time.Duration
	for i := range w.parties {
		for k := 0; k < 4; k++ {
			instants = append(instants, clks[i].start+time.Duration(k)*clks[i].period)
		}
	}
	sort.Slice(instants, func(a, b int) bool { return instants[a] < instants[b] })
	var pool, late []delivery
	poll := func() {
		for _, p := range w.parties {
			if p.exited {
				continue
			}
			select {
			case r := <-p.proto.WaitEnd():
				p.done, p.res, p.err, p.exited = true, r.Result, r.Error, true
				info.Logf("  party %d finished: result=%v err=%v", p.id, r.Result != nil, r.Error)
			default:
			}
		}
	}
	crashed := func(p *party, now time.Duration) bool {
		return p.faulty == "crash" && tickOf(p.id, now) > p.crashRound
	}
	for step := 0; step <= len(instants); step++ {
		synctest.Wait()
		now := time.Since(begin)
		poll()
		for {
			w.mu.Lock()
			ob := w.outbox
			w.outbox = nil
			w.mu.Unlock()
			for _, m := range ob {
				if crashed(m.from, now) {
					continue
				}
				for _, pk := range w.mutate(m.from, m.pkt) {
					if err := pdkg.VerifyPacketSignature(w.config(m.from), pk); err == nil {
						w.record(pk)
					}
					info.Logf("  t=%v party %d broadcasts %s[%d #%s]", now.Round(time.Millisecond), m.from.id, pktKind(pk), pk.Index(), pktHash(pk))
					for _, q := range w.parties {
						if (q == m.from && !w.echo) || crashed(q, now) {
							continue
						}
						copies := 1
						if w.dupPm > 0 && t.Bool("net.dup", w.dupPm) {
							copies = 2 + t.Intn("net.dup", 2)
							info.Fault("duplicate")
						}
						for c := 0; c < copies; c++ {
							dl := delivery{to: q, pkt: copyPkt(g, pk), copy: c}
							if c > 0 && w.lateDupPm > 0 && t.Bool("net.dup", w.lateDupPm) {
								late = append(late, dl)
								info.Fault("late-duplicate")
								continue
							}
							pool = append(pool, dl)
						}
					}
				}
			}
			if len(pool) == 0 {
				break
			}
			k := t.Intn("sched", len(pool))
			if k != 0 {
				info.NonTrivial = true
			}
			d := pool[k]
			pool = append(pool[:k], pool[k+1:]...)
			if d.to.exited || crashed(d.to, now) {
				continue
			}
			sent := false
			switch b := d.pkt.(type) {
			case *pdkg.DealBundle:
				select {
				case d.to.board.dealCh <- *b:
					sent = true
				default:
				}
			case *pdkg.ResponseBundle:
				select {
				case d.to.board.respCh <- *b:
					sent = true
				default:
				}
			case *pdkg.JustificationBundle:
				select {
				case d.to.board.justCh <- *b:
					sent = true
				default:
				}
			}
			if !sent {
				d.to.exited = true
				continue
			}
			info.Logf("t=%v %s[%d #%s copy%d] -> party %d", now.Round(time.Millisecond), pktKind(d.pkt), d.pkt.Index(), pktHash(d.pkt), d.copy, d.to.id)
			info.SigAdd("M%d:%s:%d:%d", d.to.id, pktKind(d.pkt), d.pkt.Index(), d.copy)
			info.Events++
			synctest.Wait()
			poll()
		}
		if step == len(instants) {
			break
		}
		// let the clock run to just after the next tick; late copies of this interval go out then
		next := instants[step] + time.Nanosecond
		if d := next - time.Since(begin); d > 0 {
			time.Sleep(d)
		}
		info.Logf("t=%v tick", instants[step].Round(time.Millisecond))
		info.SigAdd("T%v", instants[step])
		pool = append(pool, late...)
		late = nil
	}
	synctest.Wait()
	poll()
	for _, p := range w.parties {
		if p.faulty == "crash" {
			info.Fault("crash-stop")
		}
	}
	return nil
}

func (w *pedWorld) protocolBubble() *core.Violation {
	if w.timePhaser {
		return w.protocolBubbleTime()
	}
	g := kit.Ed()
	t := w.t
	info := w.info
	pdkg.VerifPermute = func(n int) []int { return t.Perm("sched.perm", n) }
	defer func() { pdkg.VerifPermute = nil }()
	for _, p := range w.parties {
		p.phCh = make(chan pdkg.Phase)
		p.board = &simBoard{w: w, p: p, dealCh: make(chan pdkg.DealBundle), respCh: make(chan pdkg.ResponseBundle), justCh: make(chan pdkg.JustificationBundle)}
		proto, err := pdkg.NewProtocol(w.config(p), p.board, &simPhaser{p.phCh}, false)
		if err != nil {
			// make sure already started nodes exit
			p.exited = true
			w.cleanup()
			return pviol("setup", "setup/newprotocol/"+w.variantName, "NewProtocol for party %d: %v", p.id, err)
		}
		p.proto = proto
	}
	synctest.Wait()
	defer w.cleanup()

	var nodePanic *core.Violation
	deliver := func(d delivery) {
		p := d.to
		if p.exited {
			return
		}
		sent := false
		if d.pkt == nil {
			select {
			case p.phCh <- d.tick:
				sent = true
				p.ticked++
			default:
			}
		} else {
			switch b := d.pkt.(type) {
			case *pdkg.DealBundle:
				select {
				case p.board.dealCh <- *b:
					sent = true
				default:
				}
			case *pdkg.ResponseBundle:
				select {
				case p.board.respCh <- *b:
					sent = true
				default:
				}
			case *pdkg.JustificationBundle:
				select {
				case p.board.justCh <- *b:
					sent = true
				default:
				}
			}
		}
		if !sent {
			p.exited = true
			return
		}
		synctest.Wait()
		info.Events++
		select {
		case r := <-p.proto.WaitEnd():
			p.done, p.res, p.err, p.exited = true, r.Result, r.Error, true
			info.Logf("  party %d finished: result=%v err=%v", p.id, r.Result != nil, r.Error)
		default:
		}
	}
	_ = nodePanic

	phases := []pdkg.Phase{pdkg.DealPhase, pdkg.ResponsePhase, pdkg.JustifPhase, pdkg.FinishPhase}
	w.lateCopies = make([][]delivery, len(phases)+1)
	for r, ph := range phases {
		w.round = r
		var pool []delivery
		pool = append(pool, w.lateCopies[r]...)
		for _, p := range w.parties {
			if p.crashedAt(r) {
				if p.crashRound == r {
					info.Fault("crash-stop")
					info.Logf("round %d: party %d crash-stops", r, p.id)
				}
				continue
			}
			pool = append(pool, delivery{to: p, tick: ph})
		}
		for len(pool) > 0 {
			k := t.Intn("sched", len(pool))
			if k != 0 {
				info.NonTrivial = true
			}
			d := pool[k]
			pool = append(pool[:k], pool[k+1:]...)
			if d.to.crashedAt(r) || d.to.exited {
				continue
			}
			if d.pkt == nil {
				info.Logf("r%d tick %v -> party %d", r, d.tick, d.to.id)
				info.SigAdd("T%d:%d", d.to.id, d.tick)
			} else {
				info.Logf("r%d %s[%d #%s copy%d] -> party %d", r, pktKind(d.pkt), d.pkt.Index(), pktHash(d.pkt), d.copy, d.to.id)
				info.SigAdd("M%d:%s:%d:%d", d.to.id, pktKind(d.pkt), d.pkt.Index(), d.copy)
			}
			deliver(d)
			// collect what nodes pushed while processing this event
			w.mu.Lock()
			ob := w.outbox
			w.outbox = nil
			w.mu.Unlock()
			for _, m := range ob {
				if m.from.crashedAt(r) {
					continue
				}
				pkts := w.mutate(m.from, m.pkt)
				for _, pk := range pkts {
					if err := pdkg.VerifyPacketSignature(w.config(m.from), pk); err == nil {
						w.record(pk)
					}
					info.Logf("  party %d broadcasts %s[%d #%s]", m.from.id, pktKind(pk), pk.Index(), pktHash(pk))
					for _, q := range w.parties {
						if q == m.from && !w.echo {
							continue
						}
						if q.faulty == "crash" && q.crashRound <= r {
							continue
						}
						copies := 1
						if w.dupPm > 0 && t.Bool("net.dup", w.dupPm) {
							copies = 2 + t.Intn("net.dup", 2)
							info.Fault("duplicate")
						}
						for c := 0; c < copies; c++ {
							dl := delivery{to: q, pkt: copyPkt(g, pk), copy: c}
							if c > 0 && w.lateDupPm > 0 && r+1 < len(phases) && t.Bool("net.dup", w.lateDupPm) {
								w.lateCopies[r+1] = append(w.lateCopies[r+1], dl)
								info.Fault("late-duplicate")
								continue
							}
							pool = append(pool, dl)
						}
					}
				}
			}
		}
	}
	return nil
}

// cleanup makes every node goroutine leave its select loop so that the bubble can end.
func (w *pedWorld) cleanup() {
	for _, p := range w.parties {
		if p.proto == nil {
			continue
		}
		for i := 0; i < 6; i++ {
			sent := false
			select {
			case p.phCh <- pdkg.FinishPhase:
				sent = true
			default:
			}
			synctest.Wait()
			if !sent {
				break
			}
		}
		select {
		case r := <-p.proto.WaitEnd():
			if !p.done && p.honest() {
				p.done, p.res, p.err = true, r.Result, r.Error
			}
		default:
		}
	}
}

// ---------------------------------------------------------------- direct mode

func (w *pedWorld) runDirect() *core.Violation {
	g := kit.Ed()
	t := w.t
	info := w.info
	for _, p := range w.parties {
		gen, err := pdkg.NewDistKeyHandler(w.config(p))
		if err != nil {
			return pviol("setup", "setup/newhandler/"+w.variantName, "NewDistKeyHandler for party %d: %v", p.id, err)
		}
		p.gen = gen
	}
	// slice handed to one recipient: per-recipient copies, permuted, with nil holes
	mk := func(pkts []pdkg.Packet) []pdkg.Packet {
		perm := t.Perm("sched.perm", len(pkts))
		var out []pdkg.Packet
		for _, k := range perm {
			if w.holePm > 0 && t.Bool("sched.hole", w.holePm) {
				out = append(out, nil)
				info.Fault("nil-hole")
			}
			out = append(out, copyPkt(g, pkts[k]))
		}
		for i := range perm {
			if perm[i] != i {
				info.NonTrivial = true
			}
		}
		return out
	}
	var deals, resps, justs []pdkg.Packet
	emit := func(p *party, pkt pdkg.Packet, dst *[]pdkg.Packet) {
		for _, pk := range w.mutate(p, pkt) {
			w.record(pk)
			info.Logf("  party %d broadcasts %s[%d #%s]", p.id, pktKind(pk), pk.Index(), pktHash(pk))
			*dst = append(*dst, pk)
		}
	}
	// round 0: deals
	w.round = 0
	for _, p := range w.parties {
		if p.crashedAt(0) || !p.inOld() {
			if p.faulty == "crash" && p.crashRound == 0 {
				info.Fault("crash-stop")
			}
			continue
		}
		if w.reshare && p.oldShare == nil {
			continue
		}
		var b *pdkg.DealBundle
		var err error
		if pn := core.Guard(func() { b, err = p.gen.Deals() }); pn != nil {
			return pviol("totality", "panic/deals/"+w.variantName, "party %d Deals() panicked: %v", p.id, pn)
		}
		if err != nil {
			if p.honest() {
				return pviol("liveness", "deals/error/"+w.variantName, "honest party %d Deals(): %v", p.id, err)
			}
			continue
		}
		emit(p, b, &deals)
		info.Events++
	}
	// round 1: process deals -> responses
	w.round = 1
	for _, p := range w.parties {
		if p.crashedAt(1) {
			if p.crashRound == 1 {
				info.Fault("crash-stop")
			}
			continue
		}
		in := mk(deals)
		bs := make([]*pdkg.DealBundle, len(in))
		for i, x := range in {
			if x != nil {
				bs[i] = x.(*pdkg.DealBundle)
			}
		}
		var r *pdkg.ResponseBundle
		var err error
		if pn := core.Guard(func() { r, err = p.gen.ProcessDeals(bs) }); pn != nil {
			return pviol("totality", "panic/processdeals/"+w.variantName, "party %d ProcessDeals panicked: %v | %s", p.id, pn, core.LastStack())
		}
		info.Events++
		info.SigAdd("PD%d:%d", p.id, len(bs))
		if err != nil {
			p.done, p.err = true, err
			info.Logf("party %d ProcessDeals error: %v", p.id, err)
			continue
		}
		if r != nil {
			emit(p, r, &resps)
		} else if p.faulty == "byz" && p.inNew() {
			// a Byzantine holder may speak although its object had nothing to say
			nb := &pdkg.ResponseBundle{ShareIndex: uint32(p.nidx), SessionID: kit.CopyBytes(w.nonce)}
			prev, had := w.holderOut[uint32(p.nidx)]
			sentAny := false
			for _, pk := range w.mutateResp(p, nb) {
				if rb := pk.(*pdkg.ResponseBundle); len(rb.Responses) > 0 {
					info.Logf("  party %d broadcasts resp[%d #%s] (unsolicited)", p.id, pk.Index(), pktHash(pk))
					resps = append(resps, pk)
					sentAny = true
				}
			}
			if !sentAny {
				// nothing went on the wire: no expectation may hang on it
				if had {
					w.holderOut[uint32(p.nidx)] = prev
				} else {
					delete(w.holderOut, uint32(p.nidx))
				}
			}
		}
	}
	// round 2: process responses -> results or justifications
	w.round = 2
	for _, p := range w.parties {
		if p.done {
			continue
		}
		if p.crashedAt(2) {
			if p.crashRound == 2 {
				info.Fault("crash-stop")
			}
			continue
		}
		in := mk(resps)
		bs := make([]*pdkg.ResponseBundle, len(in))
		for i, x := range in {
			if x != nil {
				bs[i] = x.(*pdkg.ResponseBundle)
			}
		}
		var res *pdkg.Result
		var jb *pdkg.JustificationBundle
		var err error
		if pn := core.Guard(func() { res, jb, err = p.gen.ProcessResponses(bs) }); pn != nil {
			return pviol("totality", "panic/processresponses/"+w.variantName, "party %d ProcessResponses panicked: %v | %s", p.id, pn, core.LastStack())
		}
		info.Events++
		info.SigAdd("PR%d:%d", p.id, len(bs))
		if err != nil || res != nil {
			p.done, p.res, p.err = true, res, err
			info.Logf("party %d after responses: result=%v err=%v", p.id, res != nil, err)
			continue
		}
		if jb != nil {
			emit(p, jb, &justs)
		}
	}
	// round 3: justifications
	w.round = 3
	for _, p := range w.parties {
		if p.done || p.crashedAt(3) {
			continue
		}
		in := mk(justs)
		bs := make([]*pdkg.JustificationBundle, len(in))
		for i, x := range in {
			if x != nil {
				bs[i] = x.(*pdkg.JustificationBundle)
			}
		}
		var res *pdkg.Result
		var err error
		if pn := core.Guard(func() { res, err = p.gen.ProcessJustifications(bs) }); pn != nil {
			return pviol("totality", "panic/processjustifications/"+w.variantName, "party %d ProcessJustifications panicked: %v | %s", p.id, pn, core.LastStack())
		}
		info.Events++
		info.SigAdd("PJ%d:%d", p.id, len(bs))
		p.done, p.res, p.err = true, res, err
		info.Logf("party %d after justifications: result=%v err=%v", p.id, res != nil, err)
	}
	return nil
}

// ---------------------------------------------------------------- oracles

func pointsBytes(ps []kyber.Point) [][]byte {
	out := make([][]byte, len(ps))
	for i, p := range ps {
		out[i], _ = p.MarshalBinary()
	}
	return out
}

func qualSet(r *pdkg.Result) []uint32 {
	var q []uint32
	for _, n := range r.QUAL {
		q = append(q, n.Index)
	}
	sort.Slice(q, func(i, j int) bool { return q[i] < q[j] })
	return q
}

func (w *pedWorld) check() *core.Violation {
	g := kit.Ed()
	info := w.info
	vn := w.variantName
	var ref *party
	var done []*party
	for _, p := range w.parties {
		if !p.honest() || !p.inNew() {
			continue
		}
		if p.res != nil {
			done = append(done, p)
			if ref == nil {
				ref = p
			}
			info.Probe("honest-completed")
		} else if p.err != nil {
			info.Probe("honest-aborted")
			info.Logf("honest party %d aborted: %v", p.id, p.err)
		} else {
			info.Probe("honest-no-output")
		}
	}
	for _, p := range w.parties {
		if p.res != nil {
			h := sha256.New()
			for _, c := range p.res.Key.Commits {
				b, _ := c.MarshalBinary()
				h.Write(b)
			}
			sb, _ := p.res.Key.Share.V.MarshalBinary()
			info.Logf("party %d output: commits#%x share#%x qual=%v", p.id, h.Sum(nil)[:8], sha256.Sum256(sb), qualSet(p.res))
		}
	}
	allHonest := true
	for _, p := range w.parties {
		if !p.honest() {
			allHonest = false
		}
	}
	if allHonest {
		// E. liveness
		for _, p := range w.parties {
			if p.inNew() && p.res == nil {
				return pviol("liveness", "liveness/honest-run-incomplete/"+vn, "all parties honest, but party %d (new index %d) has no result: err=%v", p.id, p.nidx, p.err)
			}
			if !p.inNew() && p.err != nil {
				return pviol("liveness", "liveness/old-only-error/"+vn, "all parties honest, but leaving party %d returned an error: %v", p.id, p.err)
			}
		}
	}
	// E'. bounded liveness under crash faults only: nobody deviates, some participants (within the
	// tolerated number) are absent or stop between two phases, every packet of a phase is delivered
	// before the next phase is announced - then every participant that stays alive completes, for
	// every delivery order. (Seed C11q: in fast-sync mode an honest newcomer that held all
	// justification bundles before its own timeout aborted with an error.)
	crashOnly := !allHonest
	for _, p := range w.parties {
		if p.faulty == "byz" {
			crashOnly = false
		}
	}
	if crashOnly {
		for _, p := range w.parties {
			if !p.honest() {
				continue
			}
			if p.inNew() && p.res == nil {
				return pviol("liveness", "liveness/crash-only-run-incomplete/"+vn, "only crash faults (within the tolerated number), but live party %d (new index %d) has no result: err=%v", p.id, p.nidx, p.err)
			}
			if !p.inNew() && p.err != nil {
				return pviol("liveness", "liveness/crash-only-old-only-error/"+vn, "only crash faults (within the tolerated number), but leaving party %d returned an error: %v", p.id, p.err)
			}
		}
		info.Probe("crash-only-run-complete")
	}
	if ref == nil {
		return nil
	}
	// A. agreement
	rc := pointsBytes(ref.res.Key.Commits)
	rq := qualSet(ref.res)
	for _, p := range done[1:] {
		pc := pointsBytes(p.res.Key.Commits)
		if len(pc) != len(rc) {
			return pviol("agreement", "agreement/commits-length/"+vn, "parties %d and %d output polynomials of length %d and %d", ref.id, p.id, len(rc), len(pc))
		}
		for i := range pc {
			if !bytes.Equal(pc[i], rc[i]) || !p.res.Key.Commits[i].Equal(ref.res.Key.Commits[i]) {
				return pviol("agreement", "agreement/commits/"+vn, "parties %d and %d disagree on coefficient %d of the commitment polynomial (QUAL %v vs %v)", ref.id, p.id, i, rq, qualSet(p.res))
			}
		}
		pq := qualSet(p.res)
		if fmt.Sprint(pq) != fmt.Sprint(rq) {
			return pviol("agreement", "agreement/qual/"+vn, "parties %d and %d disagree on QUAL: %v vs %v", ref.id, p.id, rq, pq)
		}
	}
	if len(rc) != w.newT {
		return pviol("shares", "shares/poly-length/"+vn, "commitment polynomial has %d coefficients, threshold is %d", len(rc), w.newT)
	}
	// B. shares on the polynomial; any t reconstruct
	var idx []uint32
	var ys []*big.Int
	for _, p := range done {
		sh := p.res.Key.Share
		if sh.I != uint32(p.nidx) {
			return pviol("shares", "shares/index/"+vn, "party %d holds share index %d, expected %d", p.id, sh.I, p.nidx)
		}
		if !g.Point().Mul(sh.V, nil).Equal(kit.EvalCommits(g, ref.res.Key.Commits, sh.I)) {
			return pviol("shares", "shares/not-on-polynomial/"+vn, "share of party %d (index %d) does not lie on the common commitment polynomial", p.id, sh.I)
		}
		idx = append(idx, sh.I)
		ys = append(ys, kit.ScalarBig(sh.V))
	}
	if len(done) >= w.newT {
		perm := w.t.Perm("oracle.subset", len(done))
		si := make([]uint32, w.newT)
		sy := make([]*big.Int, w.newT)
		for k := 0; k < w.newT; k++ {
			si[k], sy[k] = idx[perm[k]], ys[perm[k]]
		}
		sec := kit.BigScalar(g, kit.LagrangeAt0(si, sy))
		if !g.Point().Mul(sec, nil).Equal(ref.res.Key.Commits[0]) {
			return pviol("shares", "shares/reconstruct/"+vn, "t=%d honest shares (indices %v) interpolate to a secret that does not match the public key", w.newT, si)
		}
		if w.reshare && !sec.Equal(w.oldSec) {
			return pviol("composition", "composition/reshare-secret-changed/"+vn, "after resharing the new shares interpolate to a different secret")
		}
		info.Probe("reconstructed-from-t-shares")
	}
	// C/D. composition and membership
	if !w.reshare {
		inQ := map[uint32]bool{}
		for _, q := range rq {
			inQ[q] = true
		}
		for _, p := range w.parties {
			i := uint32(p.oidx)
			if p.honest() && !inQ[i] {
				return pviol("membership", "membership/honest-dealer-excluded/"+vn, "honest, live party %d (index %d) is not in QUAL %v", p.id, i, rq)
			}
			if why := w.mustExclude(p); why != "" && inQ[i] {
				return pviol("membership", "membership/bad-party-in-qual/"+vn+"/"+sanitizeWhy(why), "party %d (index %d) is in QUAL %v although: %s", p.id, i, rq, why)
			}
		}
		var sum []kyber.Point
		for _, q := range rq {
			bs := w.dealsSent[q]
			if len(bs) > 1 {
				same := true
				for _, x := range bs[1:] {
					if fmt.Sprint(pointsBytes(x.Public)) != fmt.Sprint(pointsBytes(bs[0].Public)) {
						same = false
					}
				}
				if !same {
					info.Probe("composition-skipped-equivocating-dealer-in-qual")
					sum = nil
					break
				}
			}
			if len(bs) == 0 {
				return pviol("composition", "composition/qual-dealer-without-bundle/"+vn, "dealer %d is in QUAL but never broadcast an authentic deal bundle", q)
			}
			if sum == nil {
				sum = kit.CopyPoints(g, bs[0].Public)
				continue
			}
			if len(bs[0].Public) != len(sum) {
				return pviol("composition", "composition/qual-dealer-poly-length/"+vn, "dealer %d in QUAL has a polynomial of length %d", q, len(bs[0].Public))
			}
			for k := range sum {
				sum[k] = g.Point().Add(sum[k], bs[0].Public[k])
			}
		}
		for k := range sum {
			if !sum[k].Equal(ref.res.Key.Commits[k]) {
				return pviol("composition", "composition/key-is-not-sum-of-qual/"+vn, "coefficient %d of the output polynomial is not the sum of the QUAL dealers' broadcast polynomials (QUAL %v)", k, rq)
			}
		}
		info.Probe("composition-checked")
	} else {
		if !ref.res.Key.Commits[0].Equal(w.oldPub[0]) {
			return pviol("composition", "composition/reshare-key-changed/"+vn, "public key changed by resharing")
		}
		inQ := map[uint32]bool{}
		for _, q := range rq {
			inQ[q] = true
		}
		for _, p := range w.parties {
			if !p.inNew() {
				continue
			}
			i := uint32(p.nidx)
			if p.honest() && !inQ[i] {
				return pviol("membership", "membership/honest-holder-excluded/"+vn, "honest, live new holder %d (index %d) is not in QUAL %v", p.id, i, rq)
			}
			if _, bad := w.holderOut[i]; bad && p.faulty == "byz" && inQ[i] {
				info.Probe("rule-breaking-holder-in-qual")
			}
		}
		// dealer membership through the output polynomial
		var must, amb []uint32
		for _, p := range w.parties {
			if !p.inOld() {
				continue
			}
			i := uint32(p.oidx)
			switch {
			case p.honest():
				must = append(must, i)
			case w.mustExclude(p) != "":
			default:
				if len(w.dealsSent[i]) >= 1 {
					amb = append(amb, i)
				}
			}
		}
		ok := false
		for mask := 0; mask < 1<<len(amb) && !ok; mask++ {
			set := append([]uint32{}, must...)
			for b, a := range amb {
				if mask&(1<<b) != 0 {
					set = append(set, a)
				}
			}
			sort.Slice(set, func(i, j int) bool { return set[i] < set[j] })
			if len(set) < w.oldT {
				continue
			}
			set = set[:w.oldT]
			match := true
			for k := 0; k < w.newT && match; k++ {
				// interpolate the k-th coefficients at 0 (in the exponent) with harness-side Lagrange weights
				acc := g.Point().Null()
				for _, a := range set {
					bs := w.dealsSent[a]
					if len(bs) < 1 || len(bs[0].Public) != w.newT {
						match = false
						break
					}
					lam := lagrangeWeight(set, a)
					acc = g.Point().Add(acc, g.Point().Mul(kit.BigScalar(g, lam), bs[0].Public[k]))
				}
				if match && !acc.Equal(ref.res.Key.Commits[k]) {
					match = false
				}
			}
			ok = match
		}
		if !ok {
			// diagnostic: which dealer set does reproduce the output?
			var all []uint32
			for _, n := range w.oldNodes {
				if len(w.dealsSent[n.Index]) >= 1 && len(w.dealsSent[n.Index][0].Public) == w.newT {
					all = append(all, n.Index)
				}
			}
			diag := "no subset of the dealers with an authentic bundle reproduces it"
			for mask := 1; mask < 1<<len(all); mask++ {
				var set []uint32
				for b, a := range all {
					if mask&(1<<b) != 0 {
						set = append(set, a)
					}
				}
				if len(set) != w.oldT {
					continue
				}
				match := true
				for k := 0; k < w.newT && match; k++ {
					acc := g.Point().Null()
					for _, a := range set {
						acc = g.Point().Add(acc, g.Point().Mul(kit.BigScalar(g, lagrangeWeight(set, a)), w.dealsSent[a][0].Public[k]))
					}
					match = acc.Equal(ref.res.Key.Commits[k])
				}
				if match {
					diag = fmt.Sprintf("it is the interpolation over dealers %v", set)
					break
				}
			}
			info.Logf("reshare dealer-set diagnostic: %s", diag)
			return pviol("membership", "membership/reshare-dealer-set/"+vn, "output polynomial is not the interpolation over the lowest %d dealers of {honest live dealers %v} plus any subset of the ambiguous ones %v", w.oldT, must, amb)
		}
		info.Probe("reshare-dealer-set-checked")
	}
	return nil
}

// mustExclude says why a party must be out of every honest QUAL (as a dealer), or "".
func (w *pedWorld) mustExclude(p *party) string {
	if !p.inOld() {
		return ""
	}
	i := uint32(p.oidx)
	if p.faulty == "crash" {
		if p.crashRound == 0 {
			return "crashed before dealing"
		}
		return ""
	}
	if p.faulty != "byz" {
		return ""
	}
	if why, ok := w.fatal[i]; ok {
		return why
	}
	if w.badJustify[i] {
		for h := range w.badDealTo[i] {
			if q := w.partyByNew(h); q != nil && q.honest() {
				return "invalid deal to an honest holder left unjustified"
			}
		}
	}
	return ""
}

func sanitizeWhy(s string) string {
	out := []byte(s)
	for i, c := range out {
		if !(c >= 'a' && c <= 'z' || c >= '0' && c <= '9') {
			out[i] = '-'
		}
	}
	return string(out)
}

// simLogger routes kyber's own DKG log lines into the run's event log (they are
// part of the deterministic trace and make replays readable).
type simLogger struct {
	w  *pedWorld
	id int
}

func (l *simLogger) Info(keyvals ...any)  { l.w.logNode(l.id, "info", keyvals) }
func (l *simLogger) Error(keyvals ...any) { l.w.logNode(l.id, "error", keyvals) }

func (w *pedWorld) logNode(id int, lvl string, kv []any) {
	w.mu.Lock()
	defer w.mu.Unlock()
	w.info.Notef("      [p%d %s] %v", id, lvl, kv)
}
