package dkgsim

import (
	"verif/sim/core"
)

func runRabin(t *core.Tape, tier string, info *core.RunInfo) *core.Violation {
	info.Config["variant"] = "rabin (not built yet)"
	return nil
}
