package dkgsim

import (
	"bytes"
	"crypto/sha256"
	"encoding/binary"
	"fmt"
	"math/big"
	"os"
	"sort"

	"go.dedis.ch/kyber/v4"
	"go.dedis.ch/kyber/v4/share"
	rdkg "go.dedis.ch/kyber/v4/share/dkg/rabin"
	rvss "go.dedis.ch/kyber/v4/share/vss/rabin"
	"go.dedis.ch/kyber/v4/sign/schnorr"

	"verif/sim/core"
	"verif/sim/kit"
)

// Rabin DKG through a stub phase driver (kyber has none): deals (p2p) ->
// responses -> justifications -> timeout -> secret commits -> complaint
// commits -> reconstruct commits. Inside a phase the per-recipient order and
// multiplicity are free; everything sent in a phase is delivered before the
// next one starts.

type rparty struct {
	id         int
	priv       kyber.Scalar
	pub        kyber.Point
	gen        *rdkg.DistKeyGenerator
	faulty     string // "", "crash", "byz"
	crashPhase int
	beh        map[string]bool
	key        *rdkg.DistKeyShare
	err        error
	finished   bool
}

func (p *rparty) honest() bool     { return p.faulty == "" }
func (p *rparty) dead(ph int) bool { return p.faulty == "crash" && ph >= p.crashPhase }

type rmsg struct {
	to   int
	from int
	m    any
	copy int
}

var rabinMenu = []string{"commits-fit-t-minus-1", "deal-extra-coefficient", "commits-fit-all-but-one", "deal-share-off-poly", "deal-undecryptable", "deal-misdirected", "deal-silent-to-one", "deal-none",
	"just-missing", "just-wrong-share", "resp-false-complaint", "commits-inconsistent", "commits-missing", "complaint-commits-forged", "reconstruct-missing"}

func rviol(oracle, class, format string, a ...any) *core.Violation {
	return &core.Violation{Property: "C11", Engine: "dkgsim", Oracle: oracle, Class: "C11/" + class + "/rabin", Detail: fmt.Sprintf(format, a...)}
}

func copyVssDeal(d *rvss.Deal) *rvss.Deal {
	if d == nil {
		return nil
	}
	b, err := d.Marshal()
	if err != nil {
		panic("harness: vss deal marshal: " + err.Error())
	}
	c := &rvss.Deal{}
	if err := c.Unmarshal(b, kit.Ed()); err != nil {
		panic("harness: vss deal unmarshal: " + err.Error())
	}
	return c
}

func copyRabinMsg(m any) any {
	g := kit.Ed()
	switch x := m.(type) {
	case *rdkg.Deal:
		return &rdkg.Deal{Index: x.Index, Deal: &rvss.EncryptedDeal{DHKey: kit.CopyPoint(g, x.Deal.DHKey), Signature: kit.CopyBytes(x.Deal.Signature), Cipher: kit.CopyBytes(x.Deal.Cipher)}}
	case *rdkg.Response:
		r := x.Response
		return &rdkg.Response{Index: x.Index, Response: &rvss.Response{SessionID: kit.CopyBytes(r.SessionID), Index: r.Index, Approved: r.Approved, Signature: kit.CopyBytes(r.Signature)}}
	case *rdkg.Justification:
		j := x.Justification
		return &rdkg.Justification{Index: x.Index, Justification: &rvss.Justification{SessionID: kit.CopyBytes(j.SessionID), Index: j.Index, Deal: copyVssDeal(j.Deal), Signature: kit.CopyBytes(j.Signature)}}
	case *rdkg.SecretCommits:
		return &rdkg.SecretCommits{Index: x.Index, Commitments: kit.CopyPoints(g, x.Commitments), SessionID: kit.CopyBytes(x.SessionID), Signature: kit.CopyBytes(x.Signature)}
	case *rdkg.ComplaintCommits:
		return &rdkg.ComplaintCommits{Index: x.Index, DealerIndex: x.DealerIndex, Deal: copyVssDeal(x.Deal), Signature: kit.CopyBytes(x.Signature)}
	case *rdkg.ReconstructCommits:
		return &rdkg.ReconstructCommits{SessionID: kit.CopyBytes(x.SessionID), Index: x.Index, DealerIndex: x.DealerIndex,
			Share: &share.PriShare{I: x.Share.I, V: kit.CopyScalar(g, x.Share.V)}, Signature: kit.CopyBytes(x.Signature)}
	}
	panic("harness: unknown rabin message")
}

func rkind(m any) string {
	switch x := m.(type) {
	case *rdkg.Deal:
		return fmt.Sprintf("deal[from %d]", x.Index)
	case *rdkg.Response:
		return fmt.Sprintf("resp[dealer %d by %d ok=%v]", x.Index, x.Response.Index, x.Response.Approved)
	case *rdkg.Justification:
		return fmt.Sprintf("just[dealer %d for %d]", x.Index, x.Justification.Index)
	case *rdkg.SecretCommits:
		return fmt.Sprintf("commits[%d]", x.Index)
	case *rdkg.ComplaintCommits:
		return fmt.Sprintf("ccommits[by %d against %d]", x.Index, x.DealerIndex)
	case *rdkg.ReconstructCommits:
		return fmt.Sprintf("rcommits[by %d for %d]", x.Index, x.DealerIndex)
	}
	return "?"
}

func runRabin(t *core.Tape, tier string, info *core.RunInfo) *core.Violation {
	g := kit.Ed()
	maxN := 6
	if tier == "thorough" {
		maxN = 7
	}
	n := t.Range("cfg", 3, maxN)
	th := n/2 + 1 + t.Intn("cfg", n-(n/2+1)+1)
	honestClass := t.Bool("cfg.class", 120)
	dupPm := 0
	if !honestClass && t.Bool("cfg", 400) {
		dupPm = 50 + t.Intn("cfg", 250)
	}
	// Known findings C11-rabin-*: most runs keep their triggers out (see pedersen gate)
	kfGate := t.Bool("cfg.kf", 150) || os.Getenv("VERIF_KF_ALWAYS") != ""
	privs, pubs := kit.KeyPairs(g, t, "keys", n)
	ps := make([]*rparty, n)
	for i := range ps {
		ps[i] = &rparty{id: i, priv: privs[i], pub: pubs[i]}
		gen, err := rdkg.NewDistKeyGenerator(kit.Ed(), privs[i], kit.CopyPoints(g, pubs), uint32(th))
		if err != nil {
			return rviol("setup", "setup/new", "NewDistKeyGenerator: %v", err)
		}
		ps[i].gen = gen
	}
	if !honestClass {
		budget := n - th
		for _, k := range t.Perm("cfg.faulty", n) {
			if budget == 0 || !t.Bool("cfg.faulty", 500) {
				continue
			}
			budget--
			p := ps[k]
			if t.Bool("cfg.faulty", 300) {
				p.faulty, p.crashPhase = "crash", t.Intn("cfg.faulty", 6)
			} else {
				p.faulty, p.beh = "byz", map[string]bool{}
				for b := 0; b < 1+t.Intn("cfg.faulty", 2); b++ {
					k := rabinMenu[t.Intn("cfg.faulty", len(rabinMenu))]
					if !kfGate && (k == "deal-undecryptable" || k == "deal-misdirected" || k == "deal-silent-to-one" || k == "commits-fit-t-minus-1") {
						continue
					}
					p.beh[k] = true
				}
				// the clause "an invalid deal that stays unjustified disqualifies the dealer"
				// needs a bad share AND a missing/wrong justification from the same dealer: with
				// independent picks from a 13-entry menu that pair came up twice in 6000 runs and
				// the quick tier (seed 1) missed the revert of fix 55ed310
				if t.Bool("cfg.couple", 200) {
					p.beh["deal-share-off-poly"] = true
				}
				if kfGate && t.Bool("cfg.couple3", 350) {
					// the clean form of the reconstruction scenario (one deviation only), so that the
					// reference model of the reconstruction applies
					p.beh = map[string]bool{"commits-fit-t-minus-1": true}
				}
				if t.Bool("cfg.couple2", 200) {
					p.beh["commits-fit-all-but-one"] = true // the only road into complaint/reconstruct commits
				}
				if p.beh["deal-share-off-poly"] && t.Bool("cfg.couple", 500) {
					p.beh[[]string{"just-missing", "just-wrong-share"}[t.Intn("cfg.couple", 2)]] = true
				}
			}
		}
	}
	var fl []string
	for _, p := range ps {
		if p.faulty == "crash" {
			fl = append(fl, fmt.Sprintf("%d:crash@%d", p.id, p.crashPhase))
		} else if p.faulty == "byz" {
			fl = append(fl, fmt.Sprintf("%d:byz%v", p.id, core.SortedKeys(p.beh)))
		}
	}
	info.Config["variant"], info.Config["n"], info.Config["t"], info.Config["faulty"], info.Config["dup_pm"] = "rabin", n, th, fl, dupPm

	// expectations
	badDealTo := map[int]map[int]string{} // dealer -> honest recipient -> what was wrong
	noJustify := map[int]bool{}
	markBad := func(d, r int, why string) {
		if badDealTo[d] == nil {
			badDealTo[d] = map[int]string{}
		}
		badDealTo[d][r] = why
	}
	sentCommits := map[int][]kyber.Point{} // what each dealer broadcast as secret commits (last authentic)

	var pool []rmsg
	send := func(ph int, from int, to int, m any) {
		copies := 1
		if dupPm > 0 && t.Bool("net.dup", dupPm) {
			copies = 2 + t.Intn("net.dup", 2)
			info.Fault("duplicate")
		}
		for c := 0; c < copies; c++ {
			pool = append(pool, rmsg{to: to, from: from, m: copyRabinMsg(m), copy: c})
		}
	}
	bcast := func(ph, from int, m any) {
		for to := 0; to < n; to++ {
			if to != from {
				send(ph, from, to, m)
			}
		}
	}
	var next []rmsg // messages produced while a phase is delivered go to the next phase
	sendNext := func(from, to int, m any) {
		copies := 1
		if dupPm > 0 && t.Bool("net.dup", dupPm) {
			copies = 2
			info.Fault("duplicate")
		}
		for c := 0; c < copies; c++ {
			next = append(next, rmsg{to: to, from: from, m: copyRabinMsg(m), copy: c})
		}
	}
	bcastNext := func(from int, m any) {
		for to := 0; to < n; to++ {
			if to != from {
				sendNext(from, to, m)
			}
		}
	}
	_ = bcast
	_ = send

	type extraDeal struct {
		sid []byte
		top kyber.Point
	}
	extraCoef := map[int]*extraDeal{}
	forgeReconstruct := map[int]bool{}
	type forgeData struct {
		S      []int
		forged kyber.Scalar
	}
	forgeInfo := map[int]*forgeData{}
	// ---- phase 0: deals ----
	for _, p := range ps {
		if p.dead(0) {
			if p.crashPhase == 0 {
				info.Fault("crash-stop")
			}
			continue
		}
		var deals map[int]*rdkg.Deal
		var err error
		if pn := core.Guard(func() { deals, err = p.gen.Deals() }); pn != nil {
			return rviol("totality", "panic/deals", "party %d Deals panicked: %v", p.id, pn)
		}
		if err != nil {
			return rviol("liveness", "deals/error", "party %d Deals: %v", p.id, err)
		}
		if p.faulty == "byz" && p.beh["deal-none"] {
			info.ByzFired("deal-none")
			for j := 0; j < n; j++ {
				if j != p.id && ps[j].honest() {
					markBad(p.id, j, "no deal")
				}
			}
			noJustify[p.id] = true
			continue
		}
		if p.faulty == "byz" && p.beh["deal-extra-coefficient"] {
			// A dealer whose polynomials have one coefficient MORE than the threshold it announces:
			// f'(x) = f(x) + a*x^t (and g unchanged), commitments C_0..C_{t-1}, a*G, session id over
			// those, every share on the committed polynomial. Every deal is internally consistent.
			vd := p.gen.VerifDealer()
			a := kit.ScalarFromTape(g, t, "byz.val")
			var cs []kyber.Point
			okAll := true
			crafted := map[int]*rdkg.Deal{}
			for j := 0; j < n && okAll; j++ {
				if j == p.id {
					continue
				}
				plain, err := vd.PlaintextDeal(j)
				if err != nil {
					okAll = false
					break
				}
				bad := copyVssDeal(plain)
				if cs == nil {
					cs = append(kit.CopyPoints(g, bad.Commitments), g.Point().Mul(a, nil))
				}
				xt := new(big.Int).Exp(big.NewInt(int64(j)+1), big.NewInt(int64(th)), kit.L)
				bad.SecShare.V = g.Scalar().Add(bad.SecShare.V, g.Scalar().Mul(a, kit.BigScalar(g, xt)))
				bad.Commitments = kit.CopyPoints(g, cs)
				h := kit.Ed().Hash()
				_, _ = p.pub.MarshalTo(h)
				for _, q := range ps {
					_, _ = q.pub.MarshalTo(h)
				}
				for _, c := range cs {
					_, _ = c.MarshalTo(h)
				}
				_ = binary.Write(h, binary.LittleEndian, uint32(th))
				bad.SessionID = h.Sum(nil)
				extraCoef[p.id] = &extraDeal{sid: kit.CopyBytes(bad.SessionID), top: g.Point().Mul(a, nil)}
				e, err := vd.VerifEncryptDeal(j, bad, nil, nil)
				if err != nil {
					okAll = false
					break
				}
				crafted[j] = &rdkg.Deal{Index: uint32(p.id), Deal: e}
			}
			if okAll {
				for j := 0; j < n; j++ { // in index order: ranging over the map would make the schedule irreproducible
					if d, ok := crafted[j]; ok {
						sendNext(p.id, j, d)
					}
				}
				info.ByzFired("deal-extra-coefficient")
				continue
			}
			delete(extraCoef, p.id)
		}
		for j := 0; j < n; j++ {
			d, ok := deals[j]
			if !ok {
				continue
			}
			if p.faulty == "byz" && t.Bool("byz.pick", 500) {
				vd := p.gen.VerifDealer()
				switch {
				case p.beh["deal-share-off-poly"]:
					plain, _ := vd.PlaintextDeal(j)
					bad := copyVssDeal(plain)
					bad.SecShare.V = kit.ScalarFromTape(g, t, "byz.val")
					if e, err := vd.VerifEncryptDeal(j, bad, nil, nil); err == nil {
						d = &rdkg.Deal{Index: uint32(p.id), Deal: e}
						markBad(p.id, j, "share off the polynomial")
						info.ByzFired("deal-share-off-poly")
					}
				case p.beh["deal-undecryptable"]:
					d = copyRabinMsg(d).(*rdkg.Deal)
					k := t.Intn("byz.pick", len(d.Deal.Cipher)*8)
					d.Deal.Cipher[k/8] ^= 1 << (k % 8)
					markBad(p.id, j, "undecryptable deal")
					info.ByzFired("deal-undecryptable")
				case p.beh["deal-misdirected"]:
					o := (j + 1 + t.Intn("byz.pick", n-1)) % n
					if od, ok := deals[o]; ok {
						d = od
						markBad(p.id, j, "deal of another recipient")
						info.ByzFired("deal-misdirected")
					}
				case p.beh["deal-silent-to-one"]:
					markBad(p.id, j, "no deal")
					info.ByzFired("deal-silent-to-one")
					continue
				}
			}
			sendNext(p.id, j, d)
		}
	}

	phaseNames := []string{"deals", "responses", "justifications", "secret-commits", "complaint-commits", "reconstruct-commits"}
	for ph := 1; ph <= 6; ph++ {
		pool, next = next, nil
		info.Logf("--- deliver %s ---", phaseNames[ph-1])
		for _, p := range ps {
			if p.faulty == "crash" && p.crashPhase == ph {
				info.Fault("crash-stop")
				info.Logf("party %d crash-stops", p.id)
			}
		}
		for len(pool) > 0 {
			k := t.Intn("sched", len(pool))
			if k != 0 {
				info.NonTrivial = true
			}
			ms := pool[k]
			pool = append(pool[:k], pool[k+1:]...)
			p := ps[ms.to]
			if p.dead(ph) {
				continue
			}
			info.Events++
			info.SigAdd("%d<%d:%s:%d", ms.to, ms.from, rkind(ms.m), ms.copy)
			switch m := ms.m.(type) {
			case *rdkg.Deal:
				var r *rdkg.Response
				var err error
				if pn := core.Guard(func() { r, err = p.gen.ProcessDeal(m) }); pn != nil {
					return rviol("totality", "panic/processdeal", "party %d ProcessDeal panicked: %v | %s", p.id, pn, core.LastStack())
				}
				info.Logf("%s -> %d: resp=%v err=%v", rkind(m), p.id, r != nil, err)
				if r == nil {
					continue
				}
				if p.faulty == "byz" && p.beh["resp-false-complaint"] && ps[m.Index].honest() && r.Response.Approved {
					r = copyRabinMsg(r).(*rdkg.Response)
					r.Response.Approved = false
					r.Response.Signature, _ = schnorr.Sign(g, p.priv, r.Response.Hash(g))
					info.ByzFired("resp-false-complaint")
				}
				bcastNext(p.id, r)
			case *rdkg.Response:
				var j *rdkg.Justification
				var err error
				if pn := core.Guard(func() { j, err = p.gen.ProcessResponse(m) }); pn != nil {
					return rviol("totality", "panic/processresponse", "party %d ProcessResponse(%s) panicked: %v | %s", p.id, rkind(m), pn, core.LastStack())
				}
				info.Logf("%s -> %d: just=%v err=%v", rkind(m), p.id, j != nil, err)
				if j == nil {
					continue
				}
				if p.faulty == "byz" {
					if p.beh["just-missing"] {
						noJustify[p.id] = true
						info.ByzFired("just-missing")
						continue
					}
					if p.beh["just-wrong-share"] {
						j = copyRabinMsg(j).(*rdkg.Justification)
						j.Justification.Deal.SecShare.V = kit.ScalarFromTape(g, t, "byz.val")
						j.Justification.Signature, _ = schnorr.Sign(g, p.priv, j.Justification.Hash(g))
						noJustify[p.id] = true
						info.ByzFired("just-wrong-share")
					}
				}
				// justifications travel in the same phase as late responses would: deliver in the next phase
				bcastNext(p.id, j)
			case *rdkg.Justification:
				var err error
				if pn := core.Guard(func() { err = p.gen.ProcessJustification(m) }); pn != nil {
					return rviol("totality", "panic/processjustification", "party %d ProcessJustification panicked: %v | %s", p.id, pn, core.LastStack())
				}
				info.Logf("%s -> %d: err=%v", rkind(m), p.id, err)
			case *rdkg.SecretCommits:
				var cc *rdkg.ComplaintCommits
				var err error
				if pn := core.Guard(func() { cc, err = p.gen.ProcessSecretCommits(m) }); pn != nil {
					return rviol("totality", "panic/processsecretcommits", "party %d ProcessSecretCommits panicked: %v | %s", p.id, pn, core.LastStack())
				}
				info.Logf("%s -> %d: complaint=%v err=%v", rkind(m), p.id, cc != nil, err)
				if cc != nil {
					info.Probe("complaint-commits-issued")
					bcastNext(p.id, cc)
				}
			case *rdkg.ComplaintCommits:
				var rc *rdkg.ReconstructCommits
				var err error
				if pn := core.Guard(func() { rc, err = p.gen.ProcessComplaintCommits(m) }); pn != nil {
					return rviol("totality", "panic/processcomplaintcommits", "party %d ProcessComplaintCommits panicked: %v | %s", p.id, pn, core.LastStack())
				}
				info.Logf("%s -> %d: reconstruct=%v err=%v", rkind(m), p.id, rc != nil, err)
				if rc != nil {
					if p.faulty == "byz" && p.beh["reconstruct-missing"] {
						info.ByzFired("reconstruct-missing")
						continue
					}
					bcastNext(p.id, rc)
				}
			case *rdkg.ReconstructCommits:
				var err error
				if pn := core.Guard(func() { err = p.gen.ProcessReconstructCommits(m) }); pn != nil {
					return rviol("totality", "panic/processreconstructcommits", "party %d ProcessReconstructCommits panicked: %v | %s", p.id, pn, core.LastStack())
				}
				info.Logf("%s -> %d: err=%v", rkind(m), p.id, err)
				if err == nil {
					info.Probe("reconstruct-commit-accepted")
				}
			}
		}
		// phase boundaries
		switch ph {
		case 2:
			// responses delivered; justifications are in `next`. Nothing else.
		case 3:
			// justifications delivered: timeout everywhere, then secret commits
			for _, p := range ps {
				if p.dead(4) {
					continue
				}
				p.gen.SetTimeout()
				info.Logf("party %d: timeout; QUAL=%v certified=%v", p.id, sortedQual(p.gen), p.gen.Certified())
			}
			// an honest, live dealer gave everybody a valid deal, every honest holder approved it in time and
			// every false complaint was answered with a valid justification: after the timeout it is in the
			// QUAL of EVERY honest party - its own view included (added after seed C11f: a dealer that had
			// justified a false complaint dropped itself from its own QUAL, never published its commitments
			// and nobody finished, so the end-of-run oracles had nothing to compare)
			for _, p := range ps {
				if !p.honest() {
					continue
				}
				inQ := map[uint32]bool{}
				for _, q := range sortedQual(p.gen) {
					inQ[q] = true
				}
				for _, d := range ps {
					if d.honest() && !inQ[uint32(d.id)] {
						return rviol("membership", "membership/honest-dealer-excluded-at-timeout", "after the timeout honest party %d has QUAL %v: the honest, live dealer %d is missing", p.id, sortedQual(p.gen), d.id)
					}
				}
			}
			for _, p := range ps {
				if p.dead(4) {
					continue
				}
				var sc *rdkg.SecretCommits
				var err error
				if pn := core.Guard(func() { sc, err = p.gen.SecretCommits() }); pn != nil {
					return rviol("totality", "panic/secretcommits", "party %d SecretCommits panicked: %v", p.id, pn)
				}
				if err != nil && p.faulty == "byz" {
					// a Byzantine dealer publishes its commitments whether or not its own object
					// believes its deal certified (e.g. because a verifier it cheated never answered)
					vd := p.gen.VerifDealer()
					sc = &rdkg.SecretCommits{Index: uint32(p.id), Commitments: kit.CopyPoints(g, vd.VerifSecretCommits()), SessionID: kit.CopyBytes(vd.SessionID())}
					if x := extraCoef[p.id]; x != nil {
						sc.Commitments = append(sc.Commitments, x.top)
						sc.SessionID = kit.CopyBytes(x.sid)
					}
					sc.Signature, _ = schnorr.Sign(g, p.priv, sc.Hash(g))
					err = nil
					info.Probe("byzantine-dealer-forces-secret-commits")
				}
				if err != nil {
					info.Logf("party %d SecretCommits: %v", p.id, err)
					if p.honest() {
						// DistKeyGenerator.SetTimeout times out the verifiers but not the node's own
						// dealer: with any verifier absent an honest dealer never releases its
						// commitments and nobody can finish (observation; C11 promises completion
						// only when everyone is honest)
						info.Probe("honest-own-deal-not-certified")
					}
					continue
				}
				if p.faulty == "byz" {
					if p.beh["commits-missing"] {
						info.ByzFired("commits-missing")
						continue
					}
					honestOthers := 0
					for _, q := range ps {
						if q.honest() && q.id != p.id && !q.dead(4) {
							honestOthers++
						}
					}
					// either the perturbation fits the degree (t >= n-1), or - the number of published
					// commitments is not compared with t - it is of higher degree and there are enough
					// honest parties left (t besides the victim) to answer the victim's complaint with
					// t reconstruct-commits, so that the reconstruction path runs to its end (seed C11i:
					// that path revealed the blinding share instead of the secret share)
					if p.beh["commits-fit-all-but-one"] && (n-2 <= th-1 || honestOthers-1 >= th) && n >= 3 {
						// F' = F + c*prod_{j != victim, j != me}(x - x_j): same degree, fits every other
						// participant's share, misses exactly one honest participant's share
						victim := -1
						for _, q := range ps {
							if q.honest() && q.id != p.id && !q.dead(4) {
								victim = q.id
								break
							}
						}
						if victim >= 0 {
							poly := []*big.Int{big.NewInt(1)}
							for _, q := range ps {
								if q.id == p.id || q.id == victim {
									continue
								}
								xj := big.NewInt(int64(q.id) + 1)
								nx := make([]*big.Int, len(poly)+1)
								for k := range nx {
									nx[k] = new(big.Int)
								}
								for k, c := range poly { // multiply by (x - xj)
									nx[k+1].Add(nx[k+1], c)
									nx[k].Sub(nx[k], new(big.Int).Mul(c, xj))
								}
								poly = nx
							}
							if len(poly) <= len(sc.Commitments) || honestOthers-1 >= th {
								sc = copyRabinMsg(sc).(*rdkg.SecretCommits)
								for len(sc.Commitments) < len(poly) {
									sc.Commitments = append(sc.Commitments, g.Point().Null())
								}
								cst := kit.ScalarFromTape(g, t, "byz.val")
								for k, c := range poly {
									term := g.Point().Mul(g.Scalar().Mul(cst, kit.BigScalar(g, c)), nil)
									sc.Commitments[k] = g.Point().Add(sc.Commitments[k], term)
								}
								sc.Signature, _ = schnorr.Sign(g, p.priv, sc.Hash(g))
								info.ByzFired("commits-fit-all-but-one")
							}
						}
					}
					if p.beh["commits-fit-t-minus-1"] && !p.beh["commits-fit-all-but-one"] {
						// F' = F + c*prod_{j in S}(x - x_j) with |S| = t-1 honest parties: the right number of
						// coefficients, fits the parties in S, misses every other honest party. Those complain, the
						// parties in S answer with their shares - t-1 of them - and the dealer itself supplies the
						// t-th "share" (below): nothing checks a revealed share.
						var S []int
						for _, k := range t.Perm("byz.pick", n) {
							if q := ps[k]; q.honest() && q.id != p.id && !q.dead(4) && len(S) < th-1 {
								S = append(S, q.id)
							}
						}
						victims := 0
						for _, q := range ps {
							if q.honest() && q.id != p.id && !q.dead(4) {
								victims++
							}
						}
						victims -= len(S)
						if len(S) == th-1 && victims >= 1 {
							poly := []*big.Int{big.NewInt(1)}
							for _, id := range S {
								xj := big.NewInt(int64(id) + 1)
								nx := make([]*big.Int, len(poly)+1)
								for k := range nx {
									nx[k] = new(big.Int)
								}
								for k, c := range poly {
									nx[k+1].Add(nx[k+1], c)
									nx[k].Sub(nx[k], new(big.Int).Mul(c, xj))
								}
								poly = nx
							}
							sc = copyRabinMsg(sc).(*rdkg.SecretCommits)
							cst := kit.ScalarFromTape(g, t, "byz.val")
							if cst.Equal(g.Scalar().Zero()) {
								cst = g.Scalar().One()
							}
							for k, c := range poly {
								term := g.Point().Mul(g.Scalar().Mul(cst, kit.BigScalar(g, c)), nil)
								sc.Commitments[k] = g.Point().Add(sc.Commitments[k], term)
							}
							sc.Signature, _ = schnorr.Sign(g, p.priv, sc.Hash(g))
							forgeReconstruct[p.id] = true
							forgeInfo[p.id] = &forgeData{S: append([]int{}, S...)}
							info.ByzFired("commits-fit-t-minus-1")
						}
					}
					if p.beh["commits-inconsistent"] {
						sc = copyRabinMsg(sc).(*rdkg.SecretCommits)
						k := t.Intn("byz.pick", len(sc.Commitments))
						sc.Commitments[k] = g.Point().Mul(kit.ScalarFromTape(g, t, "byz.val"), nil)
						sc.Signature, _ = schnorr.Sign(g, p.priv, sc.Hash(g))
						info.ByzFired("commits-inconsistent")
					}
				}
				sentCommits[p.id] = kit.CopyPoints(g, sc.Commitments)
				bcastNext(p.id, sc)
			}
		case 5:
			// the accused dealer "reveals" a share of its own deal to itself: any value
			for _, p := range ps {
				if p.faulty == "byz" && forgeReconstruct[p.id] {
					fv := kit.ScalarFromTape(g, t, "byz.val")
					forgeInfo[p.id].forged = fv
					rc := &rdkg.ReconstructCommits{SessionID: kit.CopyBytes(p.gen.VerifDealer().SessionID()), Index: uint32(p.id), DealerIndex: uint32(p.id),
						Share: &share.PriShare{I: uint32(p.id), V: kit.CopyScalar(g, fv)}}
					rc.Signature, _ = schnorr.Sign(g, p.priv, rc.Hash(g))
					bcastNext(p.id, rc)
					info.ByzFired("reconstruct-share-forged-by-the-dealer")
				}
			}
		case 4:
			// forged complaint commits by Byzantine parties
			for _, p := range ps {
				if p.faulty == "byz" && p.beh["complaint-commits-forged"] {
					for _, q := range ps {
						if q.honest() {
							vd := q.gen.VerifDealer()
							plain, err := vd.PlaintextDeal(p.id)
							if err != nil {
								continue
							}
							fd := copyVssDeal(plain)
							fd.SecShare.V = kit.ScalarFromTape(g, t, "byz.val")
							cc := &rdkg.ComplaintCommits{Index: uint32(p.id), DealerIndex: uint32(q.id), Deal: fd}
							cc.Signature, _ = schnorr.Sign(g, p.priv, cc.Hash(g))
							bcastNext(p.id, cc)
							info.ByzFired("complaint-commits-forged")
							break
						}
					}
				}
			}
		}
	}

	// ---- results ----
	var done []*rparty
	for _, p := range ps {
		if !p.honest() {
			continue
		}
		fin := false
		if pn := core.Guard(func() { fin = p.gen.Finished() }); pn != nil {
			return rviol("totality", "panic/finished", "party %d Finished panicked: %v", p.id, pn)
		}
		if !fin {
			info.Probe("honest-not-finished")
			info.Logf("honest party %d not finished; QUAL=%v", p.id, sortedQual(p.gen))
			if honestClass {
				return rviol("liveness", "liveness/honest-run-incomplete", "all parties honest, but party %d is not finished", p.id)
			}
			continue
		}
		var k *rdkg.DistKeyShare
		var err error
		if pn := core.Guard(func() { k, err = p.gen.DistKeyShare() }); pn != nil {
			return rviol("totality", "panic/distkeyshare", "party %d DistKeyShare panicked: %v | %s", p.id, pn, core.LastStack())
		}
		if err != nil {
			info.Probe("honest-finished-but-no-share")
			info.Logf("honest party %d finished but DistKeyShare fails: %v", p.id, err)
			if honestClass {
				return rviol("liveness", "liveness/honest-run-no-share", "all parties honest, but party %d: %v", p.id, err)
			}
			continue
		}
		p.key, p.finished = k, true
		{
			h := sha256.New()
			for _, c := range k.Commits {
				b, _ := c.MarshalBinary()
				h.Write(b)
			}
			sb, _ := k.Share.V.MarshalBinary()
			info.Logf("party %d output: commits#%x share#%x qual=%v", p.id, h.Sum(nil)[:8], sha256.Sum256(sb), sortedQual(p.gen))
		}
		done = append(done, p)
		info.Probe("honest-completed")
	}
	if len(done) == 0 {
		return nil
	}
	ref := done[0]
	rq := sortedQual(ref.gen)
	rc := pointsBytes(ref.key.Commits)
	for _, p := range done[1:] {
		if q := sortedQual(p.gen); fmt.Sprint(q) != fmt.Sprint(rq) {
			return rviol("agreement", "agreement/qual", "parties %d and %d disagree on QUAL: %v vs %v", ref.id, p.id, rq, q)
		}
		pc := pointsBytes(p.key.Commits)
		if len(pc) != len(rc) {
			return rviol("agreement", "agreement/commits-length", "parties %d and %d: polynomial lengths %d vs %d", ref.id, p.id, len(rc), len(pc))
		}
		for i := range pc {
			if !bytes.Equal(pc[i], rc[i]) {
				return rviol("agreement", "agreement/commits", "parties %d and %d disagree on coefficient %d of the commitment polynomial (QUAL %v)", ref.id, p.id, i, rq)
			}
		}
	}
	// Reference model of the reconstruction (known finding C11-rabin-reconstruct-share-unverified: the
	// forged share IS accepted): when the only deviation of the run is one dealer D with
	// commits-fit-t-minus-1, every party interpolates D's polynomial through the true shares of the t-1
	// parties in S and D's forged value. Whatever else comes out is a different defect (seed C11i revealed
	// the blinding shares) and must not hide behind the known finding.
	if len(forgeInfo) == 1 {
		var D int
		var fd *forgeData
		for k, v := range forgeInfo {
			D, fd = k, v
		}
		clean := fd.forged != nil && len(rc) == th
		for _, p := range ps {
			if p.id != D && !p.honest() {
				clean = false
			}
			if p.id == D && len(p.beh) != 1 {
				clean = false
			}
		}
		for _, q := range rq {
			if _, ok := sentCommits[int(q)]; !ok {
				clean = false
			}
		}
		if clean {
			var xs, ys []*big.Int
			vd := ps[D].gen.VerifDealer()
			for _, j := range fd.S {
				plain, err := vd.PlaintextDeal(j)
				if err != nil {
					clean = false
					break
				}
				xs, ys = append(xs, big.NewInt(int64(j)+1)), append(ys, kit.ScalarBig(plain.SecShare.V))
			}
			xs, ys = append(xs, big.NewInt(int64(D)+1)), append(ys, kit.ScalarBig(fd.forged))
			if clean {
				coef := interpolate(xs, ys)
				for k := 0; k < th; k++ {
					want := g.Point().Mul(kit.BigScalar(g, coef[k]), nil)
					for _, q := range rq {
						if int(q) != D {
							want = g.Point().Add(want, sentCommits[int(q)][k])
						}
					}
					if wb, _ := want.MarshalBinary(); !bytes.Equal(wb, rc[k]) {
						return rviol("reconstruct", "reconstruct/differs-from-the-revealed-shares", "dealer %d's commitments were reconstructed from the shares of %v and its own forged share, but coefficient %d of the common polynomial is not what those shares interpolate to", D, fd.S, k)
					}
				}
				info.Probe("reconstruction-matches-the-revealed-shares")
			}
		}
	}
	if len(rc) != th {
		return rviol("shares", "shares/poly-length", "commitment polynomial has %d coefficients, t=%d", len(rc), th)
	}
	var idx []uint32
	var ys []*big.Int
	for _, p := range done {
		sh := p.key.Share
		if sh.I != uint32(p.id) {
			return rviol("shares", "shares/index", "party %d holds share index %d", p.id, sh.I)
		}
		if !g.Point().Mul(sh.V, nil).Equal(kit.EvalCommits(g, ref.key.Commits, sh.I)) {
			return rviol("shares", "shares/not-on-polynomial", "share of honest party %d does not lie on the common commitment polynomial (QUAL %v)", p.id, rq)
		}
		idx = append(idx, sh.I)
		ys = append(ys, kit.ScalarBig(sh.V))
	}
	if len(done) >= th {
		perm := t.Perm("oracle.subset", len(done))
		si, sy := make([]uint32, th), make([]*big.Int, th)
		for k := 0; k < th; k++ {
			si[k], sy[k] = idx[perm[k]], ys[perm[k]]
		}
		if !g.Point().Mul(kit.BigScalar(g, kit.LagrangeAt0(si, sy)), nil).Equal(ref.key.Commits[0]) {
			return rviol("shares", "shares/reconstruct", "t honest shares %v interpolate to a secret that does not match the public key", si)
		}
		info.Probe("reconstructed-from-t-shares")
	}
	inQ := map[uint32]bool{}
	for _, q := range rq {
		inQ[q] = true
	}
	for _, p := range ps {
		if p.honest() && !inQ[uint32(p.id)] {
			return rviol("membership", "membership/honest-dealer-excluded", "honest, live party %d is not in QUAL %v", p.id, rq)
		}
		if p.faulty == "byz" && inQ[uint32(p.id)] && noJustify[p.id] {
			rs := make([]int, 0)
			for r := range badDealTo[p.id] {
				rs = append(rs, r)
			}
			sort.Ints(rs)
			for _, r := range rs {
				if ps[r].honest() {
					return rviol("membership", "membership/bad-dealer-in-qual/"+sanitizeWhy(badDealTo[p.id][r]), "party %d is in QUAL %v although its deal to honest party %d was invalid (%s) and never validly justified", p.id, rq, r, badDealTo[p.id][r])
				}
			}
		}
		if p.faulty == "byz" && inQ[uint32(p.id)] && !noJustify[p.id] {
			// deals that cannot even be complained about (undecryptable, misdirected, missing) can never be justified
			rs := make([]int, 0)
			for r := range badDealTo[p.id] {
				rs = append(rs, r)
			}
			sort.Ints(rs)
			for _, r := range rs {
				if why := badDealTo[p.id][r]; ps[r].honest() && why != "share off the polynomial" {
					return rviol("membership", "membership/bad-dealer-in-qual/"+sanitizeWhy(why), "party %d is in QUAL %v although honest party %d never obtained a valid deal from it (%s)", p.id, rq, r, why)
				}
			}
		}
	}
	// composition: key = sum of the QUAL dealers' constant commitments as broadcast or reconstructed
	sum := g.Point().Null()
	okc := true
	for _, q := range rq {
		c, ok := sentCommits[int(q)]
		if !ok || (ps[q].faulty == "byz" && (ps[q].beh["commits-inconsistent"] || ps[q].beh["commits-fit-all-but-one"] || ps[q].beh["commits-fit-t-minus-1"])) {
			okc = false
			break
		}
		sum = g.Point().Add(sum, c[0])
	}
	if okc {
		if !sum.Equal(ref.key.Commits[0]) {
			return rviol("composition", "composition/key-is-not-sum-of-qual", "public key is not the sum of the QUAL dealers' broadcast commitments (QUAL %v)", rq)
		}
		info.Probe("composition-checked")
	}
	return nil
}

func sortedQual(d *rdkg.DistKeyGenerator) []uint32 {
	q := d.QUAL()
	sort.Slice(q, func(i, j int) bool { return q[i] < q[j] })
	return q
}

// interpolate returns the coefficients (constant term first) of the polynomial of degree len(xs)-1 over
// Z_L through the points (xs[i], ys[i]).
func interpolate(xs, ys []*big.Int) []*big.Int {
	n := len(xs)
	out := make([]*big.Int, n)
	for i := range out {
		out[i] = new(big.Int)
	}
	for i := 0; i < n; i++ {
		num := []*big.Int{big.NewInt(1)}
		den := big.NewInt(1)
		for j := 0; j < n; j++ {
			if j == i {
				continue
			}
			nx := make([]*big.Int, len(num)+1)
			for k := range nx {
				nx[k] = new(big.Int)
			}
			for k, c := range num { // multiply by (x - xs[j])
				nx[k+1].Add(nx[k+1], c)
				nx[k].Sub(nx[k], new(big.Int).Mul(c, xs[j]))
			}
			num = nx
			den.Mul(den, new(big.Int).Sub(xs[i], xs[j]))
			den.Mod(den, kit.L)
		}
		f := new(big.Int).Mul(ys[i], new(big.Int).ModInverse(den, kit.L))
		for k := range num {
			out[k].Add(out[k], new(big.Int).Mul(num[k], f))
			out[k].Mod(out[k], kit.L)
		}
	}
	return out
}
