// Package dkgsim decides C11: the Pedersen DKG (fresh and resharing, fast-sync
// on/off) through the real goroutine-driven Protocol inside a testing/synctest
// bubble with a simulator-owned Board and Phaser, and through a direct phase
// driver; the Rabin DKG through a phase driver. Byzantine menus, crash-stop,
// duplication and every delivery order inside a phase come from the tape.
package dkgsim

import (
	"fmt"
	"math/big"
	"os"

	pdkg "go.dedis.ch/kyber/v4/share/dkg/pedersen"

	"verif/sim/core"
	"verif/sim/kit"
)

type Engine struct{}

func init() {
	core.Register(Engine{})
	core.RegisterCheck(core.CheckSpec{Property: "C11", Engines: []string{"dkgsim"}, Level: "exploration"})
}

func (Engine) Name() string { return "dkgsim" }
func (Engine) Runs(prop, tier string) int {
	if tier == "thorough" {
		return 120000
	}
	return 10000
}
func (Engine) Real() []string {
	return []string{"share/dkg/pedersen: Protocol (goroutine, select loop, set), DistKeyGenerator, VerifyPacketSignature, StatusMatrix",
		"share/dkg/rabin: DistKeyGenerator", "share/vss/rabin", "encrypt/ecies", "sign/schnorr", "share/poly.go", "group/edwards25519", "util/random"}
}
func (Engine) Stubs() []string {
	return []string{"Board and Phaser (simulator-owned unbuffered channels; one event at a time, synctest.Wait for quiescence)",
		"phase-synchronous reliable broadcast (per-recipient order and multiplicity free inside a phase)",
		"direct-mode phase driver", "Rabin phase driver with response buffering", "Byzantine scripts that rewrite and re-sign what the real objects emit"}
}
func (Engine) Rule() string {
	return "one run = one DKG (pedersen protocol-mode | pedersen direct-mode | rabin; fresh or resharing; fast-sync on/off; echo on/off) with up to n-t crashed or Byzantine parties drawn from the menus; signature = hash of the delivery/tick order; non-trivial = a fault or Byzantine behaviour fired or an event was taken out of FIFO order"
}

// lagrangeWeight returns prod_{b != a} x_b/(x_b-x_a) over Z_L with x = index+1.
func lagrangeWeight(set []uint32, a uint32) *big.Int {
	num, den := big.NewInt(1), big.NewInt(1)
	xa := big.NewInt(int64(a) + 1)
	for _, b := range set {
		if b == a {
			continue
		}
		xb := big.NewInt(int64(b) + 1)
		num.Mul(num, xb).Mod(num, kit.L)
		d := new(big.Int).Sub(xb, xa)
		d.Mod(d, kit.L)
		den.Mul(den, d).Mod(den, kit.L)
	}
	return num.Mul(num, new(big.Int).ModInverse(den, kit.L)).Mod(num, kit.L)
}

func (Engine) RunOne(t *core.Tape, prop, tier string, info *core.RunInfo) *core.Violation {
	variant := t.Pick("cfg.variant", []int{5, 3, 3}) // 0 protocol, 1 direct, 2 rabin
	if variant == 2 {
		return runRabin(t, tier, info)
	}
	return runPedersen(t, tier, info, variant == 0)
}

func runPedersen(t *core.Tape, tier string, info *core.RunInfo, protocol bool) *core.Violation {
	g := kit.Ed()
	maxN := 6
	if tier == "thorough" && !protocol {
		maxN = 9
	}
	w := &pedWorld{t: t, info: info, protocol: protocol, dealsSent: map[uint32][]*pdkg.DealBundle{}, fatal: map[uint32]string{},
		badDealTo: map[uint32]map[uint32]bool{}, badJustify: map[uint32]bool{}, holderOut: map[uint32]string{}, equivocated: map[uint32]bool{}}
	w.variantName = "pedersen-direct"
	if protocol {
		w.variantName = "pedersen-protocol"
	}
	honestClass := t.Bool("cfg.class", 120)
	w.timePhaser = protocol && t.Bool("cfg.phaser", 250)
	w.reshare = t.Bool("cfg", 400)
	w.fast = t.Bool("cfg", 450)
	w.echo = !t.Bool("cfg", 350)
	w.nonce = t.Bytes("cfg", 32)
	if !honestClass {
		if protocol && t.Bool("cfg", 500) {
			w.dupPm = 50 + t.Intn("cfg", 300)
			if t.Bool("cfg", 400) {
				w.lateDupPm = 300
			}
		}
		if !protocol && t.Bool("cfg", 400) {
			w.holePm = 100 + t.Intn("cfg", 300)
		}
	}
	mkT := func(n int) int { return n/2 + 1 + t.Intn("cfg", n-(n/2+1)+1) }
	if !w.reshare {
		n := t.Range("cfg", 3, maxN)
		w.newT = mkT(n)
		privs, pubs := kit.KeyPairs(g, t, "keys", n)
		for i := 0; i < n; i++ {
			w.parties = append(w.parties, &party{id: i, priv: privs[i], pub: pubs[i], oidx: i, nidx: i})
			w.newNodes = append(w.newNodes, pdkg.Node{Index: uint32(i), Public: pubs[i]})
		}
		w.oldNodes = w.newNodes
		w.oldT = w.newT
	} else {
		no := t.Range("cfg", 3, 5)
		w.oldT = mkT(no)
		privs, pubs := kit.KeyPairs(g, t, "keys", no)
		shares, err := kit.PedersenHonest(privs, pubs, w.oldT, t.Bytes("cfg", 32))
		if err != nil {
			return pviol("setup", "setup/old-dkg/"+w.variantName, "honest set-up DKG failed: %v", err)
		}
		w.oldPub = shares[0].Commits
		idx := make([]uint32, w.oldT)
		ys := make([]*big.Int, w.oldT)
		for i := 0; i < w.oldT; i++ {
			idx[i], ys[i] = shares[i].Share.I, kit.ScalarBig(shares[i].Share.V)
		}
		w.oldSec = kit.BigScalar(g, kit.LagrangeAt0(idx, ys))
		for i := 0; i < no; i++ {
			w.parties = append(w.parties, &party{id: i, priv: privs[i], pub: pubs[i], oidx: i, nidx: -1, oldShare: shares[i]})
			w.oldNodes = append(w.oldNodes, pdkg.Node{Index: uint32(i), Public: pubs[i]})
		}
		// new group
		rel := t.Intn("cfg", 5) // 0 same, 1 overlapping, 2 disjoint, 3 growing, 4 shrinking
		keep := make([]bool, no)
		added := 0
		switch rel {
		case 0:
			for i := range keep {
				keep[i] = true
			}
		case 1:
			for i := range keep {
				keep[i] = t.Bool("cfg", 600)
			}
			added = 1 + t.Intn("cfg", 3)
		case 2:
			added = t.Range("cfg", 3, 5)
		case 3:
			for i := range keep {
				keep[i] = true
			}
			added = 1 + t.Intn("cfg", 2)
		case 4:
			drop := 1 + t.Intn("cfg", no-2)
			for i := range keep {
				keep[i] = true
			}
			for _, k := range t.Perm("cfg", no)[:drop] {
				keep[k] = false
			}
		}
		used := map[uint32]bool{}
		nn := 0
		for i, k := range keep {
			if k {
				w.parties[i].nidx = i
				used[uint32(i)] = true
				nn++
			}
		}
		if nn+added < 3 {
			added = 3 - nn
		}
		lowFill := t.Bool("cfg", 600) // newcomers take the lowest free indices (so a newcomer can get index 0)
		nprivs, npubs := kit.KeyPairs(g, t, "keys", added)
		next := uint32(no)
		for a := 0; a < added; a++ {
			var ix uint32
			if lowFill {
				for ix = 0; used[ix]; ix++ {
				}
			} else {
				for ix = next; used[ix]; ix++ {
				}
				next = ix + 1
			}
			used[ix] = true
			w.parties = append(w.parties, &party{id: len(w.parties), priv: nprivs[a], pub: npubs[a], oidx: -1, nidx: int(ix)})
		}
		// The new group's index space is its own: staying members need not keep their number. Renumber
		// the new group with a permutation of 0..n-1 in a share of the runs, so that old and new indices
		// of a member differ and collide with other members' (seed C11j compared a dealer index with the
		// node's NEW index; with equal numbers nobody notices)
		if t.Bool("cfg.renum", 400) {
			var in []*party
			for _, p := range w.parties {
				if p.inNew() {
					in = append(in, p)
				}
			}
			for k, ix := range t.Perm("cfg.renum", len(in)) {
				in[k].nidx = ix
			}
			info.Config["new_group_renumbered"] = true
		}
		for _, p := range w.parties {
			if p.inNew() {
				w.newNodes = append(w.newNodes, pdkg.Node{Index: uint32(p.nidx), Public: p.pub})
			}
		}
		// NewNodes in index order (applications list them that way)
		for i := 1; i < len(w.newNodes); i++ {
			for j := i; j > 0 && w.newNodes[j].Index < w.newNodes[j-1].Index; j-- {
				w.newNodes[j], w.newNodes[j-1] = w.newNodes[j-1], w.newNodes[j]
			}
		}
		w.newT = mkT(len(w.newNodes))
		info.Config["relation"] = []string{"same", "overlapping", "disjoint", "growing", "shrinking"}[rel]
	}
	// Known finding C11-fastsync-equivocation: in fast-sync mode Protocol moves on as soon as it has
	// counted one packet per sender, so a conflicting second packet is seen by some nodes and not by
	// others. Most runs keep the triggering behaviours out so that the rest of the space stays explored;
	// a fixed fraction enables them so the finding is re-confirmed on every check.
	kfGate := t.Bool("cfg.kf", 120) || os.Getenv("VERIF_KF_ALWAYS") != ""
	skip := map[string]bool{}
	if protocol && w.fast && !kfGate {
		skip["deal-equivocate"], skip["resp-conflicting"], skip["resp-complaint-and-violating"] = true, true, true
	}
	// faulty parties within the tolerated bounds
	if !honestClass {
		budgetOld := len(w.oldNodes) - w.oldT
		budgetNew := len(w.newNodes) - w.newT
		// scenario bias: in a resharing with leaving dealers, the new holder with the smallest index
		// complains about a leaving dealer (the shape of the repaired defect c843097)
		forced := -1
		if w.reshare && budgetNew > 0 && t.Bool("cfg.faulty", 200) {
			hasLeaving := false
			for _, p := range w.parties {
				if p.inOld() && !p.inNew() {
					hasLeaving = true
				}
			}
			if hasLeaving {
				best := -1
				for i, p := range w.parties {
					if p.inNew() && (best < 0 || p.nidx < w.parties[best].nidx) {
						best = i
					}
				}
				if best >= 0 && !(w.parties[best].inOld() && budgetOld == 0) {
					forced = best
				}
			}
		}
		if forced >= 0 {
			p := w.parties[forced]
			p.faulty, p.beh = "byz", map[string]bool{"resp-false-complaint": true}
			budgetNew--
			if p.inOld() {
				budgetOld--
			}
		}
		// scenario bias: TWO senders of conflicting bundles in one session, with re-deliveries
		// (the Protocol's packet sets keep a list of evicted senders; seed C11e broke the lookup
		// for lists that are not in ascending order, which takes two evictions in descending order
		// and a later duplicate)
		pair := map[int]bool{}
		if protocol && !w.reshare && forced < 0 && budgetOld >= 2 && budgetNew >= 2 && (!w.fast || kfGate) && t.Bool("cfg.scn", 400) {
			perm := t.Perm("cfg.scn", len(w.parties))
			kind := []string{"deal-equivocate", "resp-conflicting"}[t.Intn("cfg.scn", 2)]
			for _, k := range perm[:2] {
				p := w.parties[k]
				p.faulty, p.beh = "byz", map[string]bool{kind: true}
				pair[k] = true
				budgetOld--
				budgetNew--
			}
			if w.dupPm < 600 {
				w.dupPm = 600
			}
		}
		// scenario bias: in a resharing whose new threshold exceeds the old one, between old-t and
		// new-t - 1 new holders complain falsely (seed C11d: the eviction bound of the response phase
		// used the OLD threshold, so honest dealers were evicted by fewer than t complaints)
		if w.reshare && forced < 0 && w.newT > w.oldT && budgetNew >= w.oldT && t.Bool("cfg.scn2", 400) {
			kmax := budgetNew
			if kmax > w.newT-1 {
				kmax = w.newT - 1
			}
			want := w.oldT + t.Intn("cfg.scn2", kmax-w.oldT+1)
			for _, k := range t.Perm("cfg.scn2", len(w.parties)) {
				p := w.parties[k]
				if want == 0 || !p.inNew() || (p.inOld() && budgetOld == 0) {
					continue
				}
				p.faulty, p.beh = "byz", map[string]bool{"resp-false-complaint": true}
				pair[k] = true
				budgetNew--
				if p.inOld() {
					budgetOld--
				}
				want--
			}
		}
		// scenario bias: ABSENCES ONLY - some participants (within the tolerated number) never show up,
		// everybody else is honest; in a resharing the absent ones are taken among the pure newcomers
		// first. The bounded-liveness oracle then applies: every live participant completes, for every
		// delivery order (seed C11q: fast-sync, an honest newcomer that holds the justifications of
		// all dealers - who all had to justify because of the absent newcomer - before its own timeout)
		absentOnly := false
		scn3 := 120
		if protocol && w.reshare && w.fast {
			scn3 = 400 // the early-packet paths of fast-sync exist only there
		}
		if forced < 0 && len(pair) == 0 && t.Bool("cfg.scn3", scn3) {
			absentOnly = true
			want := 1 + t.Intn("cfg.scn3", 2)
			for pass := 0; pass < 2 && want > 0; pass++ {
				for _, k := range t.Perm("cfg.scn3", len(w.parties)) {
					p := w.parties[k]
					if want == 0 || p.faulty != "" || (pass == 0 && p.inOld()) {
						continue
					}
					if (p.inOld() && budgetOld == 0) || (p.inNew() && budgetNew == 0) {
						continue
					}
					if p.inOld() {
						budgetOld--
					}
					if p.inNew() {
						budgetNew--
					}
					p.faulty, p.crashRound = "crash", 0
					want--
				}
			}
			info.Config["scenario"] = "absences-only"
		}
		for _, k := range t.Perm("cfg.faulty", len(w.parties)) {
			p := w.parties[k]
			if absentOnly || k == forced || pair[k] || !t.Bool("cfg.faulty", 500) {
				continue
			}
			if (p.inOld() && budgetOld == 0) || (p.inNew() && budgetNew == 0) {
				continue
			}
			if p.inOld() {
				budgetOld--
			}
			if p.inNew() {
				budgetNew--
			}
			if t.Bool("cfg.faulty", 350) {
				p.faulty = "crash"
				p.crashRound = t.Intn("cfg.faulty", 3)
			} else {
				p.faulty = "byz"
				p.beh = map[string]bool{}
				nb := 1 + t.Intn("cfg.faulty", 2)
				for b := 0; b < nb; b++ {
					var menu []string
					if p.inOld() {
						menu = append(menu, dealerMenu...)
						menu = append(menu, justMenu...)
					}
					if p.inNew() {
						menu = append(menu, holderMenu...)
					}
					if b := menu[t.Intn("cfg.faulty", len(menu))]; !skip[b] {
						p.beh[b] = true
					}
				}
			}
		}
	}
	w.variantName += map[bool]string{false: "/fresh", true: "/reshare"}[w.reshare] + map[bool]string{false: "/slow", true: "/fast"}[w.fast]
	var fl []string
	for _, p := range w.parties {
		if p.faulty == "crash" {
			fl = append(fl, fmt.Sprintf("%d:crash@%d", p.id, p.crashRound))
		} else if p.faulty == "byz" {
			fl = append(fl, fmt.Sprintf("%d:byz%v", p.id, core.SortedKeys(p.beh)))
		}
	}
	info.Config["variant"], info.Config["reshare"], info.Config["fast_sync"], info.Config["echo"] = w.variantName, w.reshare, w.fast, w.echo
	info.Config["phaser"] = map[bool]string{false: "simulator-owned", true: "kyber TimePhaser under the fake clock, skewed"}[w.timePhaser]
	info.Config["old_n"], info.Config["old_t"], info.Config["new_n"], info.Config["new_t"] = len(w.oldNodes), w.oldT, len(w.newNodes), w.newT
	info.Config["faulty"], info.Config["dup_pm"], info.Config["hole_pm"] = fl, w.dupPm, w.holePm
	var ni []string
	for _, p := range w.parties {
		ni = append(ni, fmt.Sprintf("p%d(old=%d,new=%d)", p.id, p.oidx, p.nidx))
	}
	info.Config["parties"] = ni

	var v *core.Violation
	if protocol {
		v = w.runProtocol()
	} else {
		v = w.runDirect()
	}
	if v != nil {
		return v
	}
	return w.check()
}
