package heterosim

import (
	"bytes"
	"crypto/sha256"
	"encoding/hex"
	"fmt"
	"math"
	"math/big"
	"os"
	"strings"

	"go.dedis.ch/kyber/v4"
	"go.dedis.ch/kyber/v4/group/edwards25519"
	"go.dedis.ch/kyber/v4/group/edwards25519vartime"
	"go.dedis.ch/kyber/v4/group/p256"
	"go.dedis.ch/kyber/v4/pairing"
	"go.dedis.ch/kyber/v4/pairing/bn254"
	"go.dedis.ch/kyber/v4/pairing/bn256"

	"verif/sim/core"
	"verif/sim/kit"
)

// Replicated op log. Every replica (one implementation of the same group) owns a small pool
// of point and scalar variables and applies the SAME seeded sequence of API calls to it -
// receiver and operands are pool slots drawn from the tape, so every aliasing pattern
// (r.Add(a, r), r.Sub(r, r), r.Mul(s, r) ...) occurs. After every call the whole pool of every
// replica must encode identically: replicas that run different back-ends never diverge.
// (First run against the tree: gnark's G1/G2 Add and Sub copied the first operand into the
// receiver before reading the second one, so r.Add(a, r) gave 2a - see DESIGN 9.1.)

type replica struct {
	name   string
	g      kyber.Group
	vt     bool
	base   kyber.Point
	pts    []kyber.Point
	scs    []kyber.Scalar
	noBase bool // the group has no Base()/Mul(s, nil) of its own (target groups)
	// pairing families (G1 or G2 of a pairing suite): the pool has one target-group slot that the
	// "pair" call writes, and the family gets one more replica of every implementation that is
	// RELOADED before every call - every pool value is replaced by the decoding of its encoding, as
	// after a restart with only the stored state surviving. The live replica carries the internal
	// (projective, cached) form that earlier calls left behind; the two must never diverge.
	su     pairing.Suite
	which  int
	reload bool
	gt     kyber.Point
	gt2    kyber.Point // the previous pairing result; the operand of the in-place target-group calls
}

// reloadState replaces every pool value by the decoding of its own encoding.
func (r *replica) reloadState(info *core.RunInfo) {
	for i, p := range r.pts {
		q := r.point()
		if err := q.UnmarshalBinary(mb(p)); err != nil {
			info.Probe("reload-refused-own-encoding")
			continue
		}
		r.pts[i] = q
	}
	for i, sc := range r.scs {
		q := r.g.Scalar()
		if err := q.UnmarshalBinary(mb(sc)); err != nil {
			info.Probe("reload-refused-own-encoding")
			continue
		}
		r.scs[i] = q
	}
}

// pair writes e(p, s*Base2) (G1 families) or e(s*Base1, p) (G2 families) into the target slot.
func (r *replica) pair(p kyber.Point, s kyber.Scalar) {
	if r.which == 0 {
		o := r.su.G2().Point().Mul(s, nil)
		if r.reload {
			o2 := r.su.G2().Point()
			if o2.UnmarshalBinary(mb(o)) == nil {
				o = o2
			}
		}
		r.gt2, r.gt = r.gt, r.su.Pair(p, o)
		return
	}
	o := r.su.G1().Point().Mul(s, nil)
	if r.reload {
		o2 := r.su.G1().Point()
		if o2.UnmarshalBinary(mb(o)) == nil {
			o = o2
		}
	}
	r.gt2, r.gt = r.gt, r.su.Pair(o, p)
}

// gtOp works IN PLACE on the last pairing result (an application that accumulates a product of
// pairings does this). Seed C18i: one back-end handed out one shared object for every pairing
// with an identity argument, so the accumulation changed what later identity pairings returned.
func (r *replica) gtOp(which int, s kyber.Scalar) {
	if r.gt == nil {
		return
	}
	switch which {
	case 0:
		if r.gt2 != nil {
			r.gt.Add(r.gt, r.gt2)
		}
	case 1:
		if r.gt2 != nil {
			r.gt.Sub(r.gt, r.gt2)
		}
	case 2:
		r.gt.Neg(r.gt)
	default:
		r.gt.Mul(s, r.gt)
	}
}

func (r *replica) point() kyber.Point {
	p := r.g.Point()
	if v, ok := p.(kyber.AllowsVarTime); ok {
		v.AllowVarTime(r.vt)
	}
	return p
}

// scalar value in a byte order common to all replicas of the family
func scVal(s kyber.Scalar) []byte {
	b := mb(s)
	if s.ByteOrder() == kyber.BigEndian {
		b = kit.CopyBytes(b)
		for i, j := 0, len(b)-1; i < j; i, j = i+1, j-1 {
			b[i], b[j] = b[j], b[i]
		}
	}
	return b
}

var edgeInts = []int64{0, 1, -1, 2, -2, 3, 8, -8, math.MaxInt64, math.MinInt64 + 1, 1 << 32, -(1 << 32)}

func drawInt(t *core.Tape) int64 {
	if t.Bool("prog.val", 700) {
		return edgeInts[t.Intn("prog.val", len(edgeInts))]
	}
	return int64(t.Draw("prog.val", 1<<63)) - (1 << 62)
}

func runProgram(t *core.Tape, info *core.RunInfo) *core.Violation {
	var reps []*replica
	family := "bls12381"
	single := false
	if os.Getenv("VERIF_PROG_FAMILY") == "bn256" || t.Bool("prog.bn", 150) {
		// one implementation, two BUILDS: the replicas of this family are the binaries that
		// checks/C18.sh builds with and without the tag "generic" (assembly vs. pure-Go field
		// arithmetic); the state after every call goes into the transcript, which the check
		// diffs. The pool starts from points decoded from encodings whose coordinates have
		// extreme limbs in Montgomery form (carry chains of the limb arithmetic).
		single = true
		var su pairing.Suite = bn256.NewSuite()
		curve := "bn256"
		if t.Bool("prog.bn254", 500) {
			su, curve = bn254.NewSuite(), "bn254"
		}
		which := t.Intn("prog.family", 3)
		family = curve + []string{"-g1", "-g2", "-gt"}[which]
		r := &replica{name: curve}
		switch which {
		case 0:
			r.g, r.base = su.G1(), su.G1().Point().Base()
		case 1:
			r.g, r.base = su.G2(), su.G2().Point().Base()
		default:
			r.g, r.base = su.GT(), su.Pair(su.G1().Point().Base(), su.G2().Point().Base())
		}
		reps = []*replica{r}
		if which < 2 {
			r.su, r.which = su, which
			reps = append(reps, &replica{name: curve + "-reloaded", g: r.g, base: r.base, su: su, which: which, reload: true})
		}
	} else if t.Bool("prog.model", 200) {
		// one implementation next to a math/big reference model of its curve (C18: "P-256 and BN G1
		// agree with a reference Weierstrass model")
		var g kyber.Group
		switch t.Intn("prog.model", 3) {
		case 0:
			family, g = "p256", p256.NewBlakeSHA256P256()
		case 1:
			family, g = "bn256-g1", bn256.NewSuite().G1()
		default:
			family, g = "bn254-g1", bn254.NewSuite().G1()
		}
		impl := &replica{name: family, g: g, base: g.Point().Base()}
		reps = []*replica{impl}
		if m := newModel(family, mb(impl.base)); m != nil {
			reps = append(reps, &replica{name: "math/big model", g: m, base: m.Point().Base()})
		}
		family += "+model"
	} else if t.Bool("prog.family", 400) {
		family = "ed25519"
		ct := edwards25519.NewBlakeSHA256Ed25519()
		reps = []*replica{
			{name: "edwards25519", g: ct},
			{name: "edwards25519+AllowVarTime", g: ct, vt: true},
			{name: "vartime-suite", g: edwards25519vartime.NewBlakeSHA256Ed25519(false)},
			{name: "vartime-proj", g: new(edwards25519vartime.ProjectiveCurve).Init(edwards25519vartime.ParamEd25519(), false)},
			{name: "vartime-ext", g: new(edwards25519vartime.ExtendedCurve).InitCurve(edwards25519vartime.ParamEd25519(), false)},
		}
		for _, r := range reps {
			r.base = r.point().Base()
		}
		// and the arbitrary-precision model of the curve (C18: "identical to an arbitrary-precision
		// reference model of the curve")
		if m := newModel("ed25519", mb(reps[0].base)); m != nil {
			reps = append(reps, &replica{name: "math/big model", g: m, base: m.Point().Base()})
		}
	} else {
		which := t.Intn("prog.family", 3)
		family += []string{"-g1", "-g2", "-gt"}[which]
		for _, b := range backends() {
			r := &replica{name: b.name}
			switch which {
			case 0:
				r.g, r.base = b.s.G1(), b.s.G1().Point().Base()
			case 1:
				r.g, r.base = b.s.G2(), b.s.G2().Point().Base()
			default:
				r.g, r.base, r.noBase = b.s.GT(), b.s.Pair(b.s.G1().Point().Base(), b.s.G2().Point().Base()), true
			}
			reps = append(reps, r)
		}
		if which < 2 {
			for i, b := range backends() {
				reps[i].su, reps[i].which = b.s, which
				reps = append(reps, &replica{name: b.name + "-reloaded", g: reps[i].g, base: reps[i].base, su: b.s, which: which, reload: true})
			}
		}
	}
	info.Config["kind"], info.Config["family"] = "replicated-program", family
	info.NonTrivial = true
	info.Faults["heterogeneous-cluster"]++
	const nP, nS = 4, 3
	var seeds [nS]int64
	for i := range seeds {
		seeds[i] = drawInt(t)
	}
	for _, r := range reps {
		for i := 0; i < nS; i++ {
			r.scs = append(r.scs, r.g.Scalar().SetInt64(seeds[i]))
		}
		for i := 0; i < nP; i++ {
			r.pts = append(r.pts, r.point().Mul(r.scs[i%nS], r.base))
		}
	}
	if strings.HasPrefix(family, "ed25519") {
		// pure small-order points (orders 1, 2, 4, 8), decoded from their canonical encodings: the
		// implementations must agree on them too (seed C18g: the projective Mul skipped a doubling
		// whenever X was 0, which also matches the order-2 point)
		for i := 0; i < nP; i++ {
			if !t.Bool("prog.small", 300) {
				continue
			}
			enc := smallOrderEd[t.Intn("prog.small", len(smallOrderEd))]
			var dec []kyber.Point
			ok := true
			for _, r := range reps {
				p := r.point()
				if err := p.UnmarshalBinary(enc); err != nil {
					ok = false
					break
				}
				dec = append(dec, p)
			}
			if !ok {
				info.Probe("small-order-encoding-refused-by-an-implementation")
				continue
			}
			for k, r := range reps {
				r.pts[i] = dec[k]
			}
			info.Faults["small-order-operand"]++
		}
	}
	if single {
		// replace some pool points by decoded edge-limb points
		for i := 0; i < nP; i++ {
			if !t.Bool("prog.edge", 600) {
				continue
			}
			if enc := edgeEncodingBN(t, family); enc != nil {
				p := reps[0].point()
				if err := p.UnmarshalBinary(enc); err == nil {
					for _, x := range reps {
						x.pts[i] = p.Clone()
					}
					info.Faults["edge-limb-operand"]++
				}
			}
		}
	}
	var trace []string
	compare := func(step int) *core.Violation {
		if single {
			h := sha256.New()
			for _, p := range reps[0].pts {
				h.Write(mb(p))
			}
			for _, sc := range reps[0].scs {
				h.Write(scVal(sc))
			}
			if reps[0].gt != nil {
				h.Write(mb(reps[0].gt))
			}
			info.Logf("step %d state %x", step, h.Sum(nil)[:12])
		}
		for _, r := range reps[1:] {
			if (reps[0].gt == nil) != (r.gt == nil) || (r.gt != nil && !bytes.Equal(mb(reps[0].gt), mb(r.gt))) || !bytes.Equal(mbOrNil(reps[0].gt2), mbOrNil(r.gt2)) {
				return viol("replicas-agree", "program/pairing-differs/"+family+"/"+reps[0].name+"-vs-"+r.name, "after step %d of [%s]: the pairing result is %x on %s and %x on %s", step, strings.Join(trace, "; "), head(mbOrNil(reps[0].gt)), reps[0].name, head(mbOrNil(r.gt)), r.name)
			}
			for i := 0; i < nP; i++ {
				if a, b := mb(reps[0].pts[i]), mb(r.pts[i]); !bytes.Equal(a, b) {
					return viol("replicas-agree", "program/state-differs/"+family+"/"+reps[0].name+"-vs-"+r.name, "after step %d of [%s]: point p%d is %x on %s and %x on %s", step, strings.Join(trace, "; "), i, head(a), reps[0].name, head(b), r.name)
				}
			}
			for i := 0; i < nS; i++ {
				if a, b := scVal(reps[0].scs[i]), scVal(r.scs[i]); !bytes.Equal(a, b) {
					return viol("replicas-agree", "program/state-differs/"+family+"/"+reps[0].name+"-vs-"+r.name, "after step %d of [%s]: scalar s%d is %x on %s and %x on %s (little-endian value)", step, strings.Join(trace, "; "), i, a, reps[0].name, b, r.name)
				}
			}
		}
		return nil
	}
	if v := compare(0); v != nil {
		return v
	}
	steps := 1 + t.Intn("prog", 40)
	aliased := 0
	for st := 1; st <= steps; st++ {
		kind := t.Intn("prog", 18)
		r, a, b := t.Intn("prog", nP), t.Intn("prog", nP), t.Intn("prog", nP)
		sr, sa, sb := t.Intn("prog", nS), t.Intn("prog", nS), t.Intn("prog", nS)
		iv := drawInt(t)
		// a zero divisor is decided on the first replica (the states are equal at this point)
		zero := reps[0].scs[sb].Equal(reps[0].g.Scalar().Zero())
		var desc string
		var op func(x *replica)
		if reps[0].su != nil {
			switch t.Intn("prog.pair", 10) {
			case 1, 2, 3:
				kind = 100
			case 4:
				kind = 101
			case 5:
				kind = 102
			}
		}
		switch kind {
		case 102:
			w := t.Intn("prog.pair", 4)
			desc, op = fmt.Sprintf("gt.%s(gt,..s%d)", []string{"Add", "Sub", "Neg", "Mul"}[w], sa), func(x *replica) { x.gtOp(w, x.scs[sa]) }
		case 101:
			// stored and loaded again: the live replica gets an affine, freshly decoded operand too
			desc, op = fmt.Sprintf("p%d.Unmarshal(p%d.Marshal())", r, a), func(x *replica) {
				q := x.point()
				if q.UnmarshalBinary(mb(x.pts[a])) == nil {
					x.pts[r] = q
				}
			}
		case 100:
			desc, op = fmt.Sprintf("gt=pair(p%d,s%d*base)", a, sa), func(x *replica) { x.pair(x.pts[a], x.scs[sa]) }
		case 0:
			desc, op = fmt.Sprintf("p%d.Add(p%d,p%d)", r, a, b), func(x *replica) { x.pts[r].Add(x.pts[a], x.pts[b]) }
		case 1:
			desc, op = fmt.Sprintf("p%d.Sub(p%d,p%d)", r, a, b), func(x *replica) { x.pts[r].Sub(x.pts[a], x.pts[b]) }
		case 2:
			desc, op = fmt.Sprintf("p%d.Neg(p%d)", r, a), func(x *replica) { x.pts[r].Neg(x.pts[a]) }
		case 3, 4:
			desc, op = fmt.Sprintf("p%d.Mul(s%d,p%d)", r, sa, a), func(x *replica) { x.pts[r].Mul(x.scs[sa], x.pts[a]) }
		case 5:
			desc, op = fmt.Sprintf("p%d.Mul(s%d,base)", r, sa), func(x *replica) {
				if x.noBase {
					x.pts[r].Mul(x.scs[sa], x.base)
				} else {
					x.pts[r].Mul(x.scs[sa], nil)
				}
			}
		case 6:
			desc, op = fmt.Sprintf("p%d.Set(p%d)", r, a), func(x *replica) { x.pts[r].Set(x.pts[a]) }
		case 7:
			desc, op = fmt.Sprintf("p%d=p%d.Clone()", r, a), func(x *replica) {
				x.pts[r] = x.pts[a].Clone()
				if v, ok := x.pts[r].(kyber.AllowsVarTime); ok {
					v.AllowVarTime(x.vt)
				}
			}
		case 8:
			desc, op = fmt.Sprintf("p%d.Null()", r), func(x *replica) { x.pts[r].Null() }
		case 9:
			desc, op = fmt.Sprintf("s%d.Add(s%d,s%d)", sr, sa, sb), func(x *replica) { x.scs[sr].Add(x.scs[sa], x.scs[sb]) }
		case 10:
			desc, op = fmt.Sprintf("s%d.Sub(s%d,s%d)", sr, sa, sb), func(x *replica) { x.scs[sr].Sub(x.scs[sa], x.scs[sb]) }
		case 11:
			desc, op = fmt.Sprintf("s%d.Mul(s%d,s%d)", sr, sa, sb), func(x *replica) { x.scs[sr].Mul(x.scs[sa], x.scs[sb]) }
		case 12:
			desc, op = fmt.Sprintf("s%d.Neg(s%d)", sr, sa), func(x *replica) { x.scs[sr].Neg(x.scs[sa]) }
		case 13:
			desc, op = fmt.Sprintf("s%d.SetInt64(%d)", sr, iv), func(x *replica) { x.scs[sr].SetInt64(iv) }
		case 14:
			if zero {
				continue
			}
			desc, op = fmt.Sprintf("s%d.Div(s%d,s%d)", sr, sa, sb), func(x *replica) { x.scs[sr].Div(x.scs[sa], x.scs[sb]) }
		case 15:
			if zero {
				continue
			}
			desc, op = fmt.Sprintf("s%d.Inv(s%d)", sr, sb), func(x *replica) { x.scs[sr].Inv(x.scs[sb]) }
		case 16:
			desc, op = fmt.Sprintf("s%d=s%d.Clone()", sr, sa), func(x *replica) { x.scs[sr] = x.scs[sa].Clone() }
		default:
			// SetBytes of 0..70 bytes (a big-endian number in every BLS12-381 back-end; for the Ed25519
			// implementations the same NUMBER is handed over in each one's own byte order). Seed C18d:
			// one back-end only looked at the first 32 bytes of a longer input.
			var bs []byte
			switch t.Intn("prog.val", 5) {
			case 0:
				bs = t.Bytes("prog.val", t.Intn("prog.val", 33))
			case 1:
				bs = t.Bytes("prog.val", 33+t.Intn("prog.val", 38))
			case 2:
				bs = append(make([]byte, 31), 1, byte(t.Intn("prog.val", 256))) // 00..01 || x
			case 3:
				bs = make([]byte, 33+t.Intn("prog.val", 32))
				bs[len(bs)-1] = 1 + byte(t.Intn("prog.val", 255))
			default:
				bs = t.Bytes("prog.val", 48+16*t.Intn("prog.val", 2))
			}
			desc, op = fmt.Sprintf("s%d.SetBytes(%x)", sr, bs), func(x *replica) {
				b := kit.CopyBytes(bs)
				if x.scs[sr].ByteOrder() == kyber.LittleEndian {
					for i, j := 0, len(b)-1; i < j; i, j = i+1, j-1 {
						b[i], b[j] = b[j], b[i]
					}
				}
				x.scs[sr].SetBytes(b)
			}
		}
		trace = append(trace, desc)
		if (kind <= 1 && (r == a || r == b || a == b)) || ((kind == 2 || kind == 3 || kind == 4) && r == a) || (kind >= 9 && kind <= 11 && (sr == sa || sr == sb || sa == sb)) || (kind == 14 && (sr == sa || sr == sb)) || ((kind == 12 || kind == 15) && sr == sa) {
			aliased++
		}
		var panics []string
		for _, x := range reps {
			x := x
			if x.reload {
				x.reloadState(info)
			}
			if pn := core.Guard(func() { op(x) }); pn != nil {
				panics = append(panics, fmt.Sprintf("%s: %v", x.name, pn))
			}
		}
		if len(panics) > 0 {
			if len(panics) == len(reps) {
				// every replica refuses the call alike: nothing to compare from here on
				info.Probe("program-call-panics-on-every-replica")
				break
			}
			return viol("replicas-agree", "program/panic-on-some-replicas/"+family, "step %d of [%s] panics on %d of %d replicas: %s", st, strings.Join(trace, "; "), len(panics), len(reps), strings.Join(panics, " | "))
		}
		if v := compare(st); v != nil {
			return v
		}
		info.Events++
	}
	if aliased > 0 {
		info.Faults["aliased-call"] += aliased
	}
	info.SigAdd("prog:%s:%s", family, strings.Join(trace, ";"))
	info.Logf("replicated program on %s: %d calls (%d with aliased receiver/operands), %d replicas agree after every call", family, len(trace), aliased, len(reps))
	return nil
}

var (
	pBN256, _ = new(big.Int).SetString("65000549695646603732796438742359905742825358107623003571877145026864184071783", 10)
	pBN254, _ = new(big.Int).SetString("21888242871839275222246405745257275088696311157297823662689037894645226208583", 10)
	edgeLimbs = []uint64{0, 1, math.MaxUint64, math.MaxUint64 - 1, 1 << 63, 1<<63 - 1}
)

// edgeField returns a field element (canonical, big-endian, 32 bytes) whose MONTGOMERY form
// has the tape-drawn limbs (extreme values with high probability).
func edgeField(t *core.Tape, p *big.Int) []byte {
	m := new(big.Int)
	for i := 3; i >= 0; i-- {
		var l uint64
		if t.Bool("prog.edge", 750) {
			l = edgeLimbs[t.Intn("prog.edge", len(edgeLimbs))]
		} else {
			l = t.Draw("prog.edge", math.MaxUint64)
		}
		m.Lsh(m, 64).Or(m, new(big.Int).SetUint64(l))
	}
	m.Mod(m, p)
	v := new(big.Int).Mul(m, new(big.Int).ModInverse(new(big.Int).Lsh(big.NewInt(1), 256), p))
	v.Mod(v, p)
	return v.FillBytes(make([]byte, 32))
}

// edgeEncodingBN builds an encoding of a G1 point (x crafted, y from the curve equation y^2 = x^3 + 3;
// both primes are 3 mod 4) or of a GT element (twelve crafted coefficients) of bn256 or bn254; nil when
// no point was found (G2 is left alone).
func edgeEncodingBN(t *core.Tape, family string) []byte {
	p := pBN256
	if strings.HasPrefix(family, "bn254") {
		p = pBN254
	}
	switch {
	case strings.HasSuffix(family, "-gt"):
		var b []byte
		for i := 0; i < 12; i++ {
			b = append(b, edgeField(t, p)...)
		}
		return b
	case strings.HasSuffix(family, "-g1"):
		e := new(big.Int).Rsh(new(big.Int).Add(p, big.NewInt(1)), 2)
		for try := 0; try < 6; try++ {
			xb := edgeField(t, p)
			x := new(big.Int).SetBytes(xb)
			rhs := new(big.Int).Exp(x, big.NewInt(3), p)
			rhs.Add(rhs, big.NewInt(3)).Mod(rhs, p)
			y := new(big.Int).Exp(rhs, e, p)
			if new(big.Int).Exp(y, big.NewInt(2), p).Cmp(rhs) == 0 {
				return append(xb, y.FillBytes(make([]byte, 32))...)
			}
		}
	}
	return nil
}

func hx(s string) []byte { b, _ := hex.DecodeString(s); return b }

// canonical encodings of the eight points of small order on Ed25519
var smallOrderEd = [][]byte{
	hx("0100000000000000000000000000000000000000000000000000000000000000"), // identity
	hx("ec" + strings.Repeat("ff", 30) + "7f"),                             // order 2
	hx("0000000000000000000000000000000000000000000000000000000000000000"), // order 4
	hx("0000000000000000000000000000000000000000000000000000000000000080"), // order 4
	hx("26e8958fc2b227b045c3f489f2ef98f0d5dfac05d3c63339b13802886d53fc05"), // order 8
	hx("26e8958fc2b227b045c3f489f2ef98f0d5dfac05d3c63339b13802886d53fc85"), // order 8
	hx("c7176a703d4dd84fba3c0b760d10670f2a2053fa2c39ccc64ec7fd7792ac037a"), // order 8
	hx("c7176a703d4dd84fba3c0b760d10670f2a2053fa2c39ccc64ec7fd7792ac03fa"), // order 8
}

func mbOrNil(p kyber.Point) []byte {
	if p == nil {
		return nil
	}
	return mb(p)
}
