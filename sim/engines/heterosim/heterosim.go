// Package heterosim decides the interoperability clause of C18: clusters whose
// nodes run *different* implementations of the same group (Kilic, CIRCL and
// gnark for BLS12-381; constant-time, opt-in variable-time and the
// edwards25519vartime curves for Ed25519) and exchange nothing but bytes.
// Every honest message must be accepted by every peer whatever its back-end,
// and deterministic artefacts must be byte-identical across nodes. (The
// cross-build clause is decided by checks/C18.sh, which replays seeded runs of
// other engines under the build tags and diffs the transcripts.)
package heterosim

import (
	"bytes"
	"fmt"
	"os"

	"go.dedis.ch/kyber/v4"
	"go.dedis.ch/kyber/v4/group/edwards25519"
	"go.dedis.ch/kyber/v4/group/edwards25519vartime"
	"go.dedis.ch/kyber/v4/pairing"
	circl "go.dedis.ch/kyber/v4/pairing/bls12381/circl"
	gnark "go.dedis.ch/kyber/v4/pairing/bls12381/gnark"
	kilic "go.dedis.ch/kyber/v4/pairing/bls12381/kilic"
	"go.dedis.ch/kyber/v4/share"
	"go.dedis.ch/kyber/v4/sign"
	"go.dedis.ch/kyber/v4/sign/bdn"
	"go.dedis.ch/kyber/v4/sign/bls"
	"go.dedis.ch/kyber/v4/sign/schnorr"
	"go.dedis.ch/kyber/v4/sign/tbls"

	"verif/sim/core"
	"verif/sim/kit"
)

type Engine struct{}

func init() {
	core.Register(Engine{})
	core.RegisterCheck(core.CheckSpec{Property: "C18", Engines: []string{"heterosim"}, Level: "exploration"})
}

func (Engine) Name() string { return "heterosim" }
func (Engine) Runs(prop, tier string) int {
	if tier == "thorough" {
		return 60000
	}
	return 3000
}
func (Engine) Real() []string {
	return []string{"pairing/bls12381/{kilic,circl,gnark}: scalars, G1, G2, GT, hash-to-curve, pairing", "sign/bls, sign/tbls, sign/bdn on all three back-ends", "group/edwards25519 (constant-time and AllowVarTime), group/edwards25519vartime (projective, extended)", "sign/schnorr", "share/poly.go"}
}
func (Engine) Stubs() []string {
	return []string{"cluster driver: assigns a back-end to every node, moves every value between nodes as bytes (reordered, duplicated)", "threshold-signing and aggregation drivers"}
}
func (Engine) Rule() string {
	return "one run = one heterogeneous cluster session (BLS12-381: TBLS + BDN + raw group/pairing artefacts with a tape-drawn back-end per node; Ed25519: Schnorr + raw artefacts across four implementations); signature = hash of (back-end assignment, sizes, arrival order); non-trivial = at least two different back-ends took part"
}

func viol(oracle, class, format string, a ...any) *core.Violation {
	return &core.Violation{Property: "C18", Engine: "heterosim", Oracle: oracle, Class: "C18/" + class, Detail: fmt.Sprintf(format, a...)}
}

type backend struct {
	name string
	s    pairing.Suite
}

func backends() []backend {
	return []backend{{"kilic", kilic.NewBLS12381Suite()}, {"circl", circl.NewSuite()}, {"gnark", gnark.NewSuite()}}
}

func (Engine) RunOne(t *core.Tape, prop, tier string, info *core.RunInfo) *core.Violation {
	if t.Bool("prog.pick", 350) || os.Getenv("VERIF_PROG_FAMILY") != "" {
		return runProgram(t, info)
	}
	if t.Bool("cfg.kind", 300) {
		return runEd(t, info)
	}
	return runBLS(t, info)
}

// scalarOn decodes canonical scalar bytes (as produced by MarshalBinary of any back-end) on a back-end.
func scalarOn(g kyber.Group, enc []byte) (kyber.Scalar, error) {
	s := g.Scalar()
	err := s.UnmarshalBinary(enc)
	return s, err
}

func mb(v interface{ MarshalBinary() ([]byte, error) }) []byte {
	b, err := v.MarshalBinary()
	if err != nil {
		return []byte("ERR:" + err.Error())
	}
	return b
}

func runBLS(t *core.Tape, info *core.RunInfo) *core.Violation {
	bs := backends()
	onG1 := t.Bool("cfg.group", 500)
	n := 2 + t.Intn("cfg", 5)
	th := 2 + t.Intn("cfg", n-1)
	msg := kit.DrawMsg(t, "cfg", 60)
	assign := make([]int, n+1) // node -> back-end; node n is the dealer
	used := map[int]bool{}
	var an []string
	for i := range assign {
		assign[i] = t.Intn("cfg.backend", len(bs))
		used[assign[i]] = true
		an = append(an, bs[assign[i]].name)
	}
	info.Config["kind"], info.Config["sig_group"], info.Config["n"], info.Config["t"], info.Config["backends"] = "bls12381", map[bool]string{true: "G1", false: "G2"}[onG1], n, th, an
	if len(used) > 1 {
		info.NonTrivial = true
		info.Faults["heterogeneous-cluster"]++
	}
	keyG := func(b backend) kyber.Group {
		if onG1 {
			return b.s.G2()
		}
		return b.s.G1()
	}
	sigG := func(b backend) kyber.Group {
		if onG1 {
			return b.s.G1()
		}
		return b.s.G2()
	}
	scheme := func(b backend) (sign.Scheme, sign.ThresholdScheme) {
		if onG1 {
			return bls.NewSchemeOnG1(b.s), tbls.NewThresholdSchemeOnG1(b.s)
		}
		return bls.NewSchemeOnG2(b.s), tbls.NewThresholdSchemeOnG2(b.s)
	}

	// ---- the dealer creates the polynomial on its back-end and ships everything as bytes ----
	D := bs[assign[n]]
	// the secret comes from an int64 and from canonical bytes, never from Pick (nothing promises equal streams)
	secret := keyG(D).Scalar().SetInt64(int64(t.Draw("keys", 1<<62)))
	coeffs := []kyber.Scalar{secret}
	for i := 1; i < th; i++ {
		coeffs = append(coeffs, keyG(D).Scalar().Mul(keyG(D).Scalar().SetInt64(int64(t.Draw("keys", 1<<62))), keyG(D).Scalar().SetInt64(int64(t.Draw("keys", 1<<62)))))
	}
	pri := share.CoefficientsToPriPoly(keyG(D), coeffs)
	pub := pri.Commit(keyG(D).Point().Base())
	_, commits := pub.Info()
	commitBytes := make([][]byte, len(commits))
	for i, c := range commits {
		commitBytes[i] = mb(c)
	}
	secretBytes := mb(secret)
	shareBytes := make([][]byte, n)
	for i, sh := range pri.Shares(uint32(n)) {
		shareBytes[i] = mb(sh.V)
	}

	// ---- raw artefacts: every back-end derives the same bytes from the same bytes ----
	var refPub, refSig, refH, refGT, refScalar []byte
	for bi, b := range bs {
		x, err := scalarOn(keyG(b), secretBytes)
		if err != nil {
			return viol("scalar", "scalar-rejected/"+D.name+"->"+b.name, "back-end %s rejects the scalar encoding %x produced by %s: %v", b.name, secretBytes, D.name, err)
		}
		if xb := mb(x); !bytes.Equal(xb, secretBytes) {
			return viol("scalar", "scalar-reencoding-differs/"+D.name+"->"+b.name, "scalar %x re-encodes as %x on %s", secretBytes, xb, b.name)
		}
		// arithmetic on the decoded scalar agrees: (x*x + x) encodes identically
		y := keyG(b).Scalar().Add(keyG(b).Scalar().Mul(x, x), x)
		P := keyG(b).Point().Mul(x, nil)
		bsch, _ := scheme(b)
		sg, err := bsch.Sign(x, msg)
		if err != nil {
			return viol("bls", "sign-error/"+b.name, "bls.Sign on %s: %v", b.name, err)
		}
		H := sigG(b).Point().(kyber.HashablePoint).Hash(msg)
		a1 := b.s.G1().Point().Mul(func() kyber.Scalar { s, _ := scalarOn(b.s.G1(), secretBytes); return s }(), nil)
		e := b.s.Pair(a1, b.s.G2().Point().Base())
		if bi == 0 {
			refPub, refSig, refH, refGT, refScalar = mb(P), sg, mb(H), mb(e), mb(y)
			continue
		}
		for _, c := range []struct {
			what     string
			got, ref []byte
		}{{"public key x*Base", mb(P), refPub}, {"BLS signature", sg, refSig}, {"hash-to-curve output", mb(H), refH}, {"pairing e(x*G1, G2)", mb(e), refGT}, {"scalar x*x+x", mb(y), refScalar}} {
			if !bytes.Equal(c.got, c.ref) {
				return viol("identical-encodings", "artefact-differs/"+sanitize(c.what)+"/"+bs[0].name+"-vs-"+b.name, "%s: %s gives %x, %s gives %x (sig group %v)", c.what, bs[0].name, head(c.ref), b.name, head(c.got), info.Config["sig_group"])
			}
		}
	}
	info.Events += 3
	// ---- each node decodes the public polynomial and its share on its own back-end, signs a partial ----
	type node struct {
		b       backend
		pub     *share.PubPoly
		partial []byte
	}
	nodes := make([]*node, n)
	for i := 0; i < n; i++ {
		b := bs[assign[i]]
		var cs []kyber.Point
		for k, cb := range commitBytes {
			p := keyG(b).Point()
			if err := p.UnmarshalBinary(cb); err != nil {
				return viol("point", "point-rejected/"+D.name+"->"+b.name, "node %d (%s) rejects commitment %d encoded by %s: %v", i, b.name, k, D.name, err)
			}
			if !bytes.Equal(mb(p), cb) {
				return viol("point", "point-reencoding-differs/"+D.name+"->"+b.name, "commitment %d re-encodes differently on %s", k, b.name)
			}
			cs = append(cs, p)
		}
		v, err := scalarOn(keyG(b), shareBytes[i])
		if err != nil {
			return viol("scalar", "scalar-rejected/"+D.name+"->"+b.name, "node %d (%s) rejects its share: %v", i, b.name, err)
		}
		nd := &node{b: b, pub: share.NewPubPoly(keyG(b), keyG(b).Point().Base(), cs)}
		if !nd.pub.Check(&share.PriShare{I: uint32(i), V: v}) {
			return viol("share", "share-fails-check/"+D.name+"->"+b.name, "node %d (%s): the share dealt by %s does not lie on the public polynomial as decoded by %s", i, b.name, D.name, b.name)
		}
		_, ts := scheme(b)
		nd.partial, err = ts.Sign(&share.PriShare{I: uint32(i), V: v}, msg)
		if err != nil {
			return viol("tbls", "partial-sign-error/"+b.name, "%v", err)
		}
		nodes[i] = nd
	}
	// ---- every node is also an aggregator: partials arrive as bytes in tape order, duplicated ----
	var recovered [][]byte
	for i, nd := range nodes {
		_, ts := scheme(nd.b)
		var sigs [][]byte
		perm := t.Perm("sched", n)
		for _, k := range perm {
			if err := ts.VerifyPartial(nd.pub, msg, nodes[k].partial); err != nil {
				return viol("tbls", "partial-rejected/"+nodes[k].b.name+"->"+nd.b.name, "aggregator %d (%s) rejects the partial of node %d (%s): %v", i, nd.b.name, k, nodes[k].b.name, err)
			}
			sigs = append(sigs, kit.CopyBytes(nodes[k].partial))
			if t.Bool("net.dup", 200) {
				sigs = append(sigs, kit.CopyBytes(nodes[k].partial))
				info.Faults["duplicate"]++
			}
		}
		rec, err := ts.Recover(nd.pub, msg, sigs, uint32(th), uint32(n))
		if err != nil {
			return viol("tbls", "recover-error/"+nd.b.name, "aggregator %d (%s): %v", i, nd.b.name, err)
		}
		if !bytes.Equal(rec, refSig) {
			return viol("identical-encodings", "recovered-signature-differs/"+nd.b.name, "aggregator %d (%s) recovers %x, the signature of the group secret is %x", i, nd.b.name, head(rec), head(refSig))
		}
		if err := ts.VerifyRecovered(nd.pub.Commit(), msg, rec); err != nil {
			return viol("tbls", "recovered-rejected/"+nd.b.name, "aggregator %d (%s) rejects the recovered signature: %v", i, nd.b.name, err)
		}
		recovered = append(recovered, rec)
		info.Events++
		info.SigAdd("%d:%s:%v", i, nd.b.name, perm)
	}
	// ---- BDN: aggregate key and signature of the same mask are byte-identical on every back-end ----
	var pubsB [][]byte
	var sigsB [][]byte
	m := 1 + t.Intn("cfg.bdn", 5)
	for i := 0; i < m; i++ {
		b := bs[assign[i%len(assign)]]
		x := keyG(b).Scalar().SetInt64(int64(t.Draw("keys", 1<<62)))
		pubsB = append(pubsB, mb(keyG(b).Point().Mul(x, nil)))
		s, _ := func() (sign.Scheme, sign.ThresholdScheme) { return scheme(b) }()
		sg, _ := s.Sign(x, msg)
		sigsB = append(sigsB, sg)
	}
	var refAggK, refAggS []byte
	for bi, b := range bs {
		var pubs []kyber.Point
		for _, pb := range pubsB {
			p := keyG(b).Point()
			if err := p.UnmarshalBinary(pb); err != nil {
				return viol("point", "point-rejected/any->"+b.name, "%s rejects a public key encoded by another back-end: %v", b.name, err)
			}
			pubs = append(pubs, p)
		}
		mask, err := bdn.NewMask(keyG(b), pubs, nil)
		if err != nil {
			return viol("bdn", "newmask/"+b.name, "%v", err)
		}
		for i := range pubs {
			_ = mask.SetBit(i, true)
		}
		var sc *bdn.Scheme
		if onG1 {
			sc = bdn.NewSchemeOnG1(b.s)
		} else {
			sc = bdn.NewSchemeOnG2(b.s)
		}
		ak, err1 := sc.AggregatePublicKeys(mask)
		as, err2 := sc.AggregateSignatures(sigsB, mask)
		if err1 != nil || err2 != nil {
			return viol("bdn", "aggregate-error/"+b.name, "%v %v", err1, err2)
		}
		if err := sc.Verify(ak, msg, mb(as)); err != nil {
			return viol("bdn", "aggregate-rejected/"+b.name, "%s rejects the aggregate of signatures made on other back-ends: %v", b.name, err)
		}
		if bi == 0 {
			refAggK, refAggS = mb(ak), mb(as)
		} else if !bytes.Equal(mb(ak), refAggK) || !bytes.Equal(mb(as), refAggS) {
			return viol("identical-encodings", "bdn-aggregate-differs/"+bs[0].name+"-vs-"+b.name, "BDN aggregate key/signature differ between %s and %s", bs[0].name, b.name)
		}
	}
	info.Logf("bls12381 %v n=%d t=%d backends=%v: %d aggregators agree, sig %x", info.Config["sig_group"], n, th, an, len(recovered), head(refSig))
	return nil
}

func runEd(t *core.Tape, info *core.RunInfo) *core.Violation {
	type impl struct {
		name string
		g    kyber.Group
		vt   bool
	}
	ct := edwards25519.NewBlakeSHA256Ed25519()
	impls := []impl{
		{"edwards25519", ct, false},
		{"edwards25519+AllowVarTime", ct, true},
		{"vartime-suite", edwards25519vartime.NewBlakeSHA256Ed25519(false), false},
		{"vartime-proj", new(edwards25519vartime.ProjectiveCurve).Init(edwards25519vartime.ParamEd25519(), false), false},
		{"vartime-ext", new(edwards25519vartime.ExtendedCurve).InitCurve(edwards25519vartime.ParamEd25519(), false), false},
	}
	info.Config["kind"] = "ed25519"
	info.NonTrivial = true
	info.Faults["heterogeneous-cluster"]++
	// scalars travel as canonical bytes produced by the constant-time implementation
	var edge []kyber.Scalar
	edge = append(edge, ct.Scalar().Zero(), ct.Scalar().One(), ct.Scalar().Neg(ct.Scalar().One()), ct.Scalar().SetInt64(2),
		ct.Scalar().SetBytes(t.Bytes("keys", 64)), ct.Scalar().SetBytes(t.Bytes("keys", 64)))
	k1, k2 := edge[t.Intn("cfg", len(edge))], edge[t.Intn("cfg", len(edge))]
	kb1, kb2 := mb(k1), mb(k2)
	_ = scalarOn
	// Scalars travel by VALUE: the two packages declare different byte orders for their scalar
	// encodings (edwards25519: little-endian, edwards25519vartime: big-endian mod.Int), and C18 promises
	// identical *point* encodings for the same scalar inputs, not a common scalar wire format.
	byValue := func(g kyber.Group, le []byte) kyber.Scalar {
		sc := g.Scalar()
		b := kit.CopyBytes(le)
		if sc.ByteOrder() == kyber.BigEndian {
			for i, j := 0, len(b)-1; i < j; i, j = i+1, j-1 {
				b[i], b[j] = b[j], b[i]
			}
		}
		return sc.SetBytes(b)
	}
	leOf := func(sc kyber.Scalar) []byte {
		b := mb(sc)
		if sc.ByteOrder() == kyber.BigEndian {
			for i, j := 0, len(b)-1; i < j; i, j = i+1, j-1 {
				b[i], b[j] = b[j], b[i]
			}
		}
		return b
	}
	var ref [][]byte
	for ii, im := range impls {
		g := im.g
		a := byValue(g, kb1)
		b := byValue(g, kb2)
		mul := func(s kyber.Scalar, p kyber.Point) kyber.Point {
			r := g.Point()
			if v, ok := r.(kyber.AllowsVarTime); ok {
				v.AllowVarTime(im.vt)
			}
			return r.Mul(s, p)
		}
		A := mul(a, nil)
		B := mul(b, nil)
		arte := [][]byte{leOf(a), leOf(g.Scalar().Mul(a, b)), leOf(g.Scalar().Add(a, b)), mb(A), mb(mul(b, A)), mb(g.Point().Add(A, B)), mb(g.Point().Sub(A, B)), mb(g.Point().Neg(A))}
		if ii == 0 {
			ref = arte
			continue
		}
		names := []string{"scalar value", "a*b (value)", "a+b (value)", "a*Base", "b*(a*Base)", "A+B", "A-B", "-A"}
		for k := range arte {
			if !bytes.Equal(arte[k], ref[k]) {
				return viol("identical-encodings", "ed25519-artefact-differs/"+sanitize(names[k])+"/"+im.name, "%s: edwards25519 gives %x, %s gives %x", names[k], ref[k], im.name, arte[k])
			}
		}
		// a point encoded by one implementation is accepted by the other and re-encodes identically
		p := g.Point()
		if err := p.UnmarshalBinary(ref[3]); err != nil || !bytes.Equal(mb(p), ref[3]) {
			return viol("point", "point-rejected/edwards25519->"+im.name, "%s does not accept/re-encode the point %x: %v", im.name, ref[3], err)
		}
		info.Events++
	}
	// Schnorr between the constant-time implementation and its opt-in variable-time path (same wire format)
	msg := kit.DrawMsg(t, "cfg", 40)
	x := k1
	if x.Equal(ct.Scalar().Zero()) {
		x = ct.Scalar().One()
	}
	sigCT, err := schnorr.Sign(ct, x, msg)
	if err != nil {
		return viol("schnorr", "sign-error", "%v", err)
	}
	pubVT := ct.Point()
	if v, ok := pubVT.(kyber.AllowsVarTime); ok {
		v.AllowVarTime(true)
	}
	pubVT.Mul(x, nil)
	if err := schnorr.Verify(ct, pubVT, msg, sigCT); err != nil {
		return viol("schnorr", "cross-verify/ct->allowvartime", "a Schnorr signature is rejected under the key computed on the variable-time path: %v", err)
	}
	info.SigAdd("ed:%x:%x", kb1[:4], kb2[:4])
	info.Logf("ed25519 cluster: %d implementations agree on %d artefacts; schnorr cross-verifies", len(impls), len(ref))
	return nil
}

func head(b []byte) []byte {
	if len(b) > 24 {
		return b[:24]
	}
	return b
}

func sanitize(s string) string {
	out := []byte(s)
	for i, c := range out {
		if !(c >= 'a' && c <= 'z' || c >= 'A' && c <= 'Z' || c >= '0' && c <= '9') {
			out[i] = '-'
		}
	}
	return string(out)
}
