package heterosim

import (
	"errors"
	"math/big"

	"go.dedis.ch/kyber/v4"
)

// A small executable reference model of a group, used as one more replica of the replicated op
// log: affine arithmetic over math/big, nothing shared with the library. Two curve shapes:
// short Weierstrass y^2 = x^3 + ax + b (P-256, BN256/BN254 G1) and twisted Edwards
// -x^2 + y^2 = 1 + d x^2 y^2 (Ed25519). Only the methods the op log calls are implemented; the
// embedded nil interfaces make any other call panic loudly.

type curveModel struct {
	name    string
	edwards bool
	p, a, b *big.Int // field prime; Weierstrass a, b - or Edwards d in b
	q       *big.Int // group order (scalars)
	gx, gy  *big.Int // generator, taken from the implementation's own encoding of Base()
	clen    int      // coordinate length in bytes
	prefix  []byte   // encoding prefix (P-256: 0x04)
	kyber.Group
}

func (m *curveModel) String() string       { return "math/big model of " + m.name }
func (m *curveModel) Point() kyber.Point   { return m.identity() }
func (m *curveModel) Scalar() kyber.Scalar { return &modelScalar{m: m, v: new(big.Int)} }
func (m *curveModel) ScalarLen() int       { return 32 }

func (m *curveModel) identity() *modelPoint {
	if m.edwards {
		return &modelPoint{m: m, x: big.NewInt(0), y: big.NewInt(1)}
	}
	return &modelPoint{m: m, x: big.NewInt(0), y: big.NewInt(0), inf: true}
}

type modelPoint struct {
	m    *curveModel
	x, y *big.Int
	inf  bool
	kyber.Point
}

func (p *modelPoint) mod(v *big.Int) *big.Int { return v.Mod(v, p.m.p) }
func (p *modelPoint) inv(v *big.Int) *big.Int { return new(big.Int).ModInverse(v, p.m.p) }

func (p *modelPoint) set(q *modelPoint) *modelPoint {
	p.x, p.y, p.inf = new(big.Int).Set(q.x), new(big.Int).Set(q.y), q.inf
	return p
}

func (p *modelPoint) add(a, b *modelPoint) *modelPoint {
	m := p.m
	if m.edwards {
		x1y2 := new(big.Int).Mul(a.x, b.y)
		y1x2 := new(big.Int).Mul(a.y, b.x)
		y1y2 := new(big.Int).Mul(a.y, b.y)
		x1x2 := new(big.Int).Mul(a.x, b.x)
		dxy := new(big.Int).Mul(m.b, new(big.Int).Mul(x1x2, y1y2))
		dxy.Mod(dxy, m.p)
		nx := p.mod(new(big.Int).Add(x1y2, y1x2))
		ny := p.mod(new(big.Int).Add(y1y2, x1x2)) // a = -1: y1y2 - a x1x2
		dx := p.mod(new(big.Int).Add(big.NewInt(1), dxy))
		dy := p.mod(new(big.Int).Sub(big.NewInt(1), dxy))
		x := p.mod(new(big.Int).Mul(nx, p.inv(dx)))
		y := p.mod(new(big.Int).Mul(ny, p.inv(dy)))
		p.x, p.y, p.inf = x, y, false
		return p
	}
	switch {
	case a.inf:
		return p.set(b)
	case b.inf:
		return p.set(a)
	}
	var lam *big.Int
	if a.x.Cmp(b.x) == 0 {
		if new(big.Int).Mod(new(big.Int).Add(a.y, b.y), m.p).Sign() == 0 {
			return p.set(m.identity())
		}
		num := new(big.Int).Mul(big.NewInt(3), new(big.Int).Mul(a.x, a.x))
		num.Add(num, m.a)
		lam = p.mod(new(big.Int).Mul(p.mod(num), p.inv(p.mod(new(big.Int).Lsh(a.y, 1)))))
	} else {
		num := p.mod(new(big.Int).Sub(b.y, a.y))
		den := p.mod(new(big.Int).Sub(b.x, a.x))
		lam = p.mod(new(big.Int).Mul(num, p.inv(den)))
	}
	x := new(big.Int).Mul(lam, lam)
	x.Sub(x, a.x).Sub(x, b.x)
	p.mod(x)
	y := new(big.Int).Sub(a.x, x)
	y.Mul(y, lam).Sub(y, a.y)
	p.mod(y)
	p.x, p.y, p.inf = x, y, false
	return p
}

func (p *modelPoint) neg(a *modelPoint) *modelPoint {
	if p.m.edwards {
		p.x, p.y, p.inf = p.mod(new(big.Int).Neg(a.x)), new(big.Int).Set(a.y), false
		return p
	}
	if a.inf {
		return p.set(a)
	}
	p.x, p.y, p.inf = new(big.Int).Set(a.x), p.mod(new(big.Int).Neg(a.y)), false
	return p
}

func (p *modelPoint) Null() kyber.Point { return p.set(p.m.identity()) }
func (p *modelPoint) Base() kyber.Point {
	return p.set(&modelPoint{m: p.m, x: p.m.gx, y: p.m.gy})
}
func (p *modelPoint) Set(a kyber.Point) kyber.Point { return p.set(a.(*modelPoint)) }
func (p *modelPoint) Clone() kyber.Point            { return (&modelPoint{m: p.m}).set(p) }
func (p *modelPoint) Add(a, b kyber.Point) kyber.Point {
	x, y := (&modelPoint{m: p.m}).set(a.(*modelPoint)), (&modelPoint{m: p.m}).set(b.(*modelPoint))
	return p.add(x, y)
}
func (p *modelPoint) Sub(a, b kyber.Point) kyber.Point {
	x := (&modelPoint{m: p.m}).set(a.(*modelPoint))
	nb := (&modelPoint{m: p.m}).neg(b.(*modelPoint))
	return p.add(x, nb)
}
func (p *modelPoint) Neg(a kyber.Point) kyber.Point {
	return p.neg((&modelPoint{m: p.m}).set(a.(*modelPoint)))
}
func (p *modelPoint) Mul(s kyber.Scalar, a kyber.Point) kyber.Point {
	base := &modelPoint{m: p.m, x: p.m.gx, y: p.m.gy}
	if a != nil {
		base = (&modelPoint{m: p.m}).set(a.(*modelPoint))
	}
	k := new(big.Int).Mod(s.(*modelScalar).v, p.m.q)
	acc := p.m.identity()
	for i := k.BitLen() - 1; i >= 0; i-- {
		acc.add((&modelPoint{m: p.m}).set(acc), (&modelPoint{m: p.m}).set(acc))
		if k.Bit(i) == 1 {
			acc.add((&modelPoint{m: p.m}).set(acc), base)
		}
	}
	return p.set(acc)
}
func (p *modelPoint) Equal(a kyber.Point) bool {
	q := a.(*modelPoint)
	return p.inf == q.inf && p.x.Cmp(q.x) == 0 && p.y.Cmp(q.y) == 0
}
func (p *modelPoint) MarshalBinary() ([]byte, error) {
	m := p.m
	if m.edwards {
		b := p.y.FillBytes(make([]byte, 32))
		for i, j := 0, 31; i < j; i, j = i+1, j-1 {
			b[i], b[j] = b[j], b[i]
		}
		b[31] |= byte(p.x.Bit(0)) << 7
		return b, nil
	}
	out := append([]byte{}, m.prefix...)
	if p.inf {
		return append(out, make([]byte, 2*m.clen)...), nil
	}
	out = append(out, p.x.FillBytes(make([]byte, m.clen))...)
	return append(out, p.y.FillBytes(make([]byte, m.clen))...), nil
}
func (p *modelPoint) UnmarshalBinary(b []byte) error {
	m := p.m
	if m.edwards {
		if len(b) != 32 {
			return errors.New("model: wrong length")
		}
		le := append([]byte{}, b...)
		sign := uint(le[31] >> 7)
		le[31] &= 0x7f
		for i, j := 0, 31; i < j; i, j = i+1, j-1 {
			le[i], le[j] = le[j], le[i]
		}
		y := new(big.Int).SetBytes(le)
		if y.Cmp(m.p) >= 0 {
			return errors.New("model: non-canonical y")
		}
		y2 := new(big.Int).Mul(y, y)
		num := p.mod(new(big.Int).Sub(y2, big.NewInt(1)))
		den := p.mod(new(big.Int).Add(new(big.Int).Mul(m.b, y2), big.NewInt(1)))
		x2 := p.mod(new(big.Int).Mul(num, p.inv(den)))
		x := new(big.Int).ModSqrt(x2, m.p)
		if x == nil {
			return errors.New("model: not on the curve")
		}
		if x.Bit(0) != sign {
			x = p.mod(new(big.Int).Neg(x))
		}
		if x.Sign() == 0 && sign == 1 {
			return errors.New("model: sign bit set for x = 0")
		}
		p.x, p.y, p.inf = x, y, false
		return nil
	}
	if len(b) != len(m.prefix)+2*m.clen {
		return errors.New("model: wrong length")
	}
	b = b[len(m.prefix):]
	x, y := new(big.Int).SetBytes(b[:m.clen]), new(big.Int).SetBytes(b[m.clen:])
	if x.Sign() == 0 && y.Sign() == 0 {
		p.set(m.identity())
		return nil
	}
	p.x, p.y, p.inf = x, y, false
	return nil
}

type modelScalar struct {
	m *curveModel
	v *big.Int
	kyber.Scalar
}

func (s *modelScalar) red() *modelScalar          { s.v.Mod(s.v, s.m.q); return s }
func (s *modelScalar) ByteOrder() kyber.ByteOrder { return kyber.LittleEndian }
func (s *modelScalar) Equal(a kyber.Scalar) bool  { return s.v.Cmp(a.(*modelScalar).v) == 0 }
func (s *modelScalar) Set(a kyber.Scalar) kyber.Scalar {
	s.v = new(big.Int).Set(a.(*modelScalar).v)
	return s
}
func (s *modelScalar) Clone() kyber.Scalar {
	return &modelScalar{m: s.m, v: new(big.Int).Set(s.v)}
}
func (s *modelScalar) Zero() kyber.Scalar { s.v = big.NewInt(0); return s }
func (s *modelScalar) One() kyber.Scalar  { s.v = big.NewInt(1); return s }
func (s *modelScalar) SetInt64(v int64) kyber.Scalar {
	s.v = big.NewInt(v)
	return s.red()
}
func (s *modelScalar) Add(a, b kyber.Scalar) kyber.Scalar {
	s.v = new(big.Int).Add(a.(*modelScalar).v, b.(*modelScalar).v)
	return s.red()
}
func (s *modelScalar) Sub(a, b kyber.Scalar) kyber.Scalar {
	s.v = new(big.Int).Sub(a.(*modelScalar).v, b.(*modelScalar).v)
	return s.red()
}
func (s *modelScalar) Mul(a, b kyber.Scalar) kyber.Scalar {
	s.v = new(big.Int).Mul(a.(*modelScalar).v, b.(*modelScalar).v)
	return s.red()
}
func (s *modelScalar) Neg(a kyber.Scalar) kyber.Scalar {
	s.v = new(big.Int).Neg(a.(*modelScalar).v)
	return s.red()
}
func (s *modelScalar) Inv(a kyber.Scalar) kyber.Scalar {
	s.v = new(big.Int).ModInverse(a.(*modelScalar).v, s.m.q)
	return s
}
func (s *modelScalar) Div(a, b kyber.Scalar) kyber.Scalar {
	s.v = new(big.Int).Mul(a.(*modelScalar).v, new(big.Int).ModInverse(b.(*modelScalar).v, s.m.q))
	return s.red()
}
func (s *modelScalar) SetBytes(b []byte) kyber.Scalar {
	be := append([]byte{}, b...)
	for i, j := 0, len(be)-1; i < j; i, j = i+1, j-1 {
		be[i], be[j] = be[j], be[i]
	}
	s.v = new(big.Int).SetBytes(be)
	return s.red()
}
func (s *modelScalar) MarshalBinary() ([]byte, error) {
	b := s.v.FillBytes(make([]byte, 32))
	for i, j := 0, 31; i < j; i, j = i+1, j-1 {
		b[i], b[j] = b[j], b[i]
	}
	return b, nil
}

func bigOf(s string) *big.Int { v, _ := new(big.Int).SetString(s, 10); return v }

// newModel builds the model of a curve; the generator is read from the implementation's encoding
// of Base(), so that the model checks the group law and the encodings, not a constant.
func newModel(name string, baseEnc []byte) *curveModel {
	var m *curveModel
	switch name {
	case "ed25519":
		p := new(big.Int).Sub(new(big.Int).Lsh(big.NewInt(1), 255), big.NewInt(19))
		d := new(big.Int).Mul(big.NewInt(-121665), new(big.Int).ModInverse(big.NewInt(121666), p))
		d.Mod(d, p)
		m = &curveModel{name: name, edwards: true, p: p, b: d, q: bigOf("7237005577332262213973186563042994240857116359379907606001950938285454250989"), clen: 32}
	case "p256":
		bb, _ := new(big.Int).SetString("5ac635d8aa3a93e7b3ebbd55769886bc651d06b0cc53b0f63bce3c3e27d2604b", 16)
		m = &curveModel{name: name, p: bigOf("115792089210356248762697446949407573530086143415290314195533631308867097853951"), a: big.NewInt(-3), b: bb,
			q: bigOf("115792089210356248762697446949407573529996955224135760342422259061068512044369"), clen: 32, prefix: []byte{4}}
	case "bn256-g1":
		m = &curveModel{name: name, p: pBN256, a: big.NewInt(0), b: big.NewInt(3), q: bigOf("65000549695646603732796438742359905742570406053903786389881062969044166799969"), clen: 32}
	case "bn254-g1":
		m = &curveModel{name: name, p: pBN254, a: big.NewInt(0), b: big.NewInt(3), q: bigOf("21888242871839275222246405745257275088548364400416034343698204186575808495617"), clen: 32}
	default:
		return nil
	}
	g := m.identity()
	if err := g.UnmarshalBinary(baseEnc); err != nil {
		return nil
	}
	m.gx, m.gy = g.x, g.y
	return m
}
