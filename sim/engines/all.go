// Package engines links every engine into the verif binary.
package engines

import (
	_ "verif/sim/engines/dkgsim"
	_ "verif/sim/engines/dsssim"
	_ "verif/sim/engines/heterosim"
	_ "verif/sim/engines/proofsim"
	_ "verif/sim/engines/pvsssim"
	_ "verif/sim/engines/signsim"
	_ "verif/sim/engines/vsssim"
	_ "verif/sim/engines/wire"
	_ "verif/sim/engines/xofsim"
)
