#!/bin/bash
# Determinism self-test: for an engine, run the same run indices in many
# separate processes under GOMAXPROCS 1/4/16 and diff the FULL event logs.
# usage: selftest/determinism.sh <prop> <engine> [runs=40] [reps=3] [binary=bin/verif]
cd "$(dirname "$0")/.."
prop=$1; eng=$2; runs=${3:-40}; reps=${4:-3}; bin=${5:-bin/verif}
tmp=$(mktemp -d /var/tmp/verif-det.XXXXXX); trap 'rm -rf $tmp' EXIT
k=0
for seed in 1 7; do
  for gmp in 1 4 16; do
    for r in $(seq $reps); do
      k=$((k+1))
      ( GOMAXPROCS=$gmp $bin trace -prop $prop -engine $eng -seed $seed -from 0 -to $runs -v 2>&1 | grep -v "^  ~ " > $tmp/s$seed.g$gmp.r$r.log ) &
    done
  done
  wait
  ref=$tmp/s$seed.g1.r1.log
  for f in $tmp/s$seed.*.log; do
    if ! cmp -s $ref $f; then echo "NONDETERMINISM engine=$eng seed=$seed: $f differs from $ref"; diff $ref $f | head -20; exit 1; fi
  done
done
echo "deterministic: engine=$eng prop=$prop $k processes x $runs runs, full logs identical ($(wc -l < $ref) log lines per process)"
