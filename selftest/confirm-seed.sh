#!/bin/bash
# Confirm a seeded change delivered by a sub-agent in /tmp/seed-<id>/OUT, in a fresh scratch
# worktree of /repo: patch applies, module builds, the existing suite passes with it, the
# demonstration fails with it and passes without it. On success copies it to seeded/<id>/.
# usage: selftest/confirm-seed.sh <id> <property> <demo package dir | prog:<cmd>> "<what it needs to manifest>"
cd "$(dirname "$0")/.."
id=$1; prop=$2; demo=$3; needs=$4
src=/tmp/seed-$id/OUT
W=/tmp/confirm-$id
export GOFLAGS=-mod=mod GOPROXY=off GOSUMDB=off GOTOOLCHAIN=local
GO=go1.26.8
git -C /repo worktree remove --force $W 2>/dev/null
git -C /repo worktree add -q --detach $W HEAD || exit 2
trap 'git -C /repo worktree remove --force $W 2>/dev/null; rm -rf $W' EXIT
cd $W
grep -q '_test.go' $src/patch.diff && { echo "REJECT: patch touches test files"; }
git apply $src/patch.diff || { echo "REJECT: patch does not apply to HEAD"; exit 1; }
$GO build ./... || { echo "REJECT: does not build"; exit 1; }
echo "--- existing suite with the change"
if ! $GO test -vet=off -count=1 ./... > /tmp/confirm-$id.suite.log 2>&1; then
  echo "REJECT: existing suite fails with the change:"; grep -v '^ok\|no test files' /tmp/confirm-$id.suite.log | head -20; exit 1
fi
echo "suite ok ($(grep -c '^ok' /tmp/confirm-$id.suite.log) packages)"
rundemo() {
  if [[ "$demo" == prog:* ]]; then bash -c "${demo#prog:}"; else $GO test ${DEMOFLAGS:-} -vet=off -count=1 -run "${DEMORUN:-Demo|demo}" ./$demo/ ; fi
}
if [[ "$demo" != prog:* ]]; then cp $src/demo_test.go $demo/zz_demo_test.go; else cp -r $src/* . 2>/dev/null; fi
echo "--- demo WITH the change (must fail)"
if rundemo > /tmp/confirm-$id.with.log 2>&1; then echo "REJECT: demo passes with the change"; tail -5 /tmp/confirm-$id.with.log; exit 1; fi
tail -4 /tmp/confirm-$id.with.log
git apply -R $src/patch.diff
echo "--- demo WITHOUT the change (must pass)"
if ! rundemo > /tmp/confirm-$id.without.log 2>&1; then echo "REJECT: demo fails without the change"; tail -8 /tmp/confirm-$id.without.log; exit 1; fi
tail -2 /tmp/confirm-$id.without.log
cd /verif
mkdir -p seeded/$id
cp $src/patch.diff seeded/$id/patch.diff
cp $src/notes.md seeded/$id/notes.md 2>/dev/null
cp $src/demo_test.go seeded/$id/ 2>/dev/null || cp $src/*.go seeded/$id/ 2>/dev/null
jq -n --arg id $id --arg p $prop --arg d "$demo" --arg n "$needs" --arg files "$(grep '^+++ b/' $src/patch.diff | sed 's#+++ b/##' | tr '\n' ' ')" \
  '{id:$id, property:$p, files_changed:$files, needs_to_manifest:$n, demonstration:$d,
    confirmed:{applies:true, builds:true, existing_suite_passes_with_change:true, demo_fails_with_change:true, demo_passes_without_change:true},
    what_i_ran:"selftest/confirm-seed.sh in a fresh scratch worktree of /repo (go1.26.8, full suite go test -vet=off -count=1 ./...)"}' > seeded/$id/meta.json
echo "KEPT seeded/$id"
