#!/bin/bash
# Sensitivity self-test: reverse-apply each "fix:" commit of /repo in turn (in a scratch
# worktree handed to the checks through VERIF_REPO; /repo itself is not touched), run the
# quick check of the property it belongs to, expect a VIOLATION.
# usage: selftest/revert-fixes.sh [commit ...]
cd "$(dirname "$0")/.."
declare -A PROP=( [30e171d]=C10 [26768e1]=C18 [2df5f9a]=C18 [0ea1f3b]=C18 [f054e0c]=C18 [5809fcf]=C18 [52d3481]=C18 [0538a39]=C18 [7e1be8b]=C18 [886e3b9]=C18 [a969596]=C18 [c5ace5b]=C18 [32a735b]=C18 [dfca8e6]=C11 [27242cc]=C03 [ea9f14e]=C03 [153a2c1]=C20 [cf0d7f6]=C20 [9288d04]=C19 [ed9b7d4]=C19 [39982ad]=C03 [3351948]=C04 [423f497]=C04 [426090a]=C04 [4c697be]=C10 [72e1037]=C10 [eccafbc]=C10 [067256a]=C04 [7b1de17]=C11 [c843097]=C11 [55ed310]=C11 [ef73bf7]=C09 [704859f]=C09 [e7c6a61]=C13 [90616b3]=C14 [786b971]=C14 )
rc=0
list="$*"; [ -z "$list" ] && list="${!PROP[@]}"
for c in $list; do
  p=${PROP[$c]}
  W=/tmp/revfix-$c-$$
  git -C /repo worktree add -q --detach $W HEAD || exit 2
  if ! git -C /repo show $c | git -C $W apply -R 2>/dev/null; then echo "skip $c (does not reverse-apply)"; git -C /repo worktree remove --force $W; continue; fi
  out=$(VERIF_REPLAY_DIR=$W.replays VERIF_REPO=$W VERIF_KF_ALWAYS=${KF:-} VERIF_BUDGET_S=${BUDGET:-90} ./run $p quick 2>&1); code=$?
  git -C /repo worktree remove --force $W; rm -rf $W $W.replays
  n=$(echo "$out" | grep -c '^VIOLATION')
  cls=$(echo "$out" | grep -m1 '^  class=' | sed 's/^  class=//')
  if [ $code -eq 1 ] && [ $n -gt 0 ]; then echo "caught  $c $p ($n violation lines; $cls)"; else echo "MISSED  $c $p (exit $code)"; rc=1; fi
done
exit $rc
