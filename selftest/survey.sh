#!/bin/bash
# Development aid: run a check in survey mode (workers do not stop at the first
# violation) and print one minimised replay per violation class.
cd "$(dirname "$0")/.."
prop=$1; tier=${2:-quick}
rm -rf replays
./run build; VERIF_SURVEY=1 ./bin/verif check -prop $prop -tier $tier > /tmp/survey.$$.out 2>&1
tail -1 /tmp/survey.$$.out; rm -f /tmp/survey.$$.out
python3 - <<'PY'
import json,glob
seen={}
for f in sorted(glob.glob('replays/*.json')):
    r=json.load(open(f))
    c=r['class']
    seen.setdefault(c,[]).append((r['minimised_draws'],f))
for c,l in sorted(seen.items()):
    l.sort()
    n,f=l[0]
    r=json.load(open(f))
    print('=====',c,'x%d'%len(l),f); print('  ',r['detail'][:400]); print('   fired',r['fired_kinds'],'draws',r['original_draws'],'->',n); print('   cfg',json.dumps(r['config'])[:600])
    for t in r['trace'][-45:]: print('     ',t[:170])
PY
