#!/bin/bash
# Replays of repaired defects must NOT reproduce on the repaired tree.
cd "$(dirname "$0")/.."
./run build || exit 2
rc=0
for f in regressions/*.json; do
  if grep -q '"xbuild"' "$f"; then out=$(./checks/C18.sh replay "$f" 2>&1); code=$?
  else out=$(./bin/verif replay "$f" 2>&1); code=$?; fi
  if [ $code -eq 0 ] && echo "$out" | grep -q NOT-REPRODUCED; then echo "ok   $f"; else echo "FAIL $f (exit $code): $out" | head -3; rc=1; fi
done
exit $rc
