#!/usr/bin/env python3
"""Generate the instruction files for the fresh sub-agents that produce seeded changes
(DESIGN 11). Each agent sees ONLY the text of one property and a scratch worktree of /repo.
usage: seed_agents.py <wave>   -> writes /tmp/agent-<id>.txt and creates /tmp/seed-<id> worktrees"""
import json, subprocess, sys
WAVES = {
 '2': {
  'C03b': "Focus on the binary encodings of scalars or points of ONE specific group (group/edwards25519 scalars, group/mod Int with its byte orders, group/p256, pairing/bn256, one BLS12-381 adapter): fixed length, round trip, 'Equal iff same bytes', MarshalTo/UnmarshalFrom versus MarshalBinary/UnmarshalBinary. Do NOT touch util/encoding (already covered).",
  'C03c': "Focus on the suite-level stream encoding: util/encoding and group/internal/marshalling (fixed-length Read/Write of points/scalars/structs via the suite), or a MarshalTo/UnmarshalFrom implementation that mishandles a legal io.Reader/io.Writer behaviour (short write, partial read). Do NOT change getHex in util/encoding/encoding.go (already covered).",
  'C04b': "Focus on the membership checks of ONE point decoder (on-curve, subgroup/cofactor, canonical coordinate range, identity encodings) for rare inputs in one group: group/edwards25519, group/edwards25519vartime, group/p256 (curve or the QR/residue groups), pairing/bn256, pairing/bn254 or one BLS12-381 adapter. Do NOT touch sign/anon (already covered).",
  'C04c': "Focus on a verifier/decoder of a composite message other than sign/anon: sign/schnorr, sign/eddsa, sign/bls, sign/cosi (signature with mask), proof/dleq, encrypt/ecies, the VSS encrypted deal: something that panics, or accepts, for a rare malformed/truncated input.",
  'C09c': "Focus on CoSi (sign/cosi): masks, policies (Complete/Threshold), commitment/response aggregation and verification. Do NOT touch sign/tbls Recover or sign/bdn AggregatePublicKeys (already covered).",
  'C09d': "Focus on plain BLS aggregation and batch verification (sign/bls: AggregateSignatures, AggregatePublicKeys, BatchVerify) or BDN signature aggregation / mask handling (sign/bdn: AggregateSignatures, Mask.SetBit/SetMask/IndexOfNthEnabled...). Do NOT touch sign/tbls Recover or bdn AggregatePublicKeys (already covered).",
  'C10c': "Focus on Pedersen VSS (share/vss/pedersen) OTHER than verifyJustification: the verifier side (ProcessEncryptedDeal, session id, SetTimeout), the dealer side (ProcessResponse, duplicate/forged responses), EnoughApprovals/DealCertified counting, RecoverSecret.",
  'C10d': "Focus on Rabin VSS (share/vss/rabin) OTHER than cleanVerifiers: VerifyDeal (the f*G+g*H check, index/threshold range), ProcessResponse/ProcessJustification, session ids, the DH/AEAD context of the encrypted deal, RecoverSecret.",
  'C11d': "Focus on resharing in the Pedersen DKG (share/dkg/pedersen/dkg.go): old/new group handling, checks of the public coefficients against the old distributed key, dealers that are only in the old group, thresholds of old vs new group. Do NOT add anything to the inner loop of ProcessDeals (already covered).",
  'C11e': "Focus on the Pedersen Protocol driver (share/dkg/pedersen/protocol.go): fast-sync transitions, phase timeouts, the packet sets (de-duplication of deals/responses/justifications), start conditions. Do NOT touch Protocol.verify (already covered).",
  'C11f': "Focus on the Rabin DKG (share/dkg/rabin/dkg.go) OTHER than ProcessSecretCommits: ProcessDeal/ProcessResponse/ProcessJustification, SetTimeout, QUAL/Certified, ProcessComplaintCommits, ProcessReconstructCommits, DistKeyShare.",
  'C12c': "Focus on sign/dss OTHER than Signature()'s call to RecoverSecret: session id derivation, ProcessPartialSig (index checks, signature/consistency check of the partial, duplicates), EnoughPartialSig, Verify. Do NOT touch share.RecoverSecret (already covered).",
  'C13b': "Focus on share/pvss EncShares / VerifyEncShare / VerifyEncShareBatch / DecShare / RecoverSecret and proof/dleq (NewDLEQProof, NewDLEQProofBatch, Verify). Do NOT touch VerifyDecShareBatch (already covered).",
  'C14c': "Focus on the non-interactive path: proof/hash.go (hashProver/hashVerifier, how commitments and the challenge are derived and consumed) and the Rep/And predicates of proof/proof.go (commit/respond/verify, variable bookkeeping). Do NOT touch orPred.commit or proof/deniable.go challengeStep (already covered).",
  'C14d': "Focus on proof/deniable.go OTHER than the 'wrong key for commit' check of challengeStep: the commit step, the response step, the handling of missing, short, duplicated or late messages from other clique participants, the per-participant error slots.",
  'C18b': "Focus on making ONE BLS12-381 back-end adapter (pairing/bls12381/kilic, circl or gnark) disagree with the others (encoding of a rare point, hash-to-point domain tag, pairing of identity, scalar reduction), or making pairing/bn256 under `-tags generic` disagree with the assembly build for rare field values. Default-build tests must still pass.",
  'C18c': "Focus on group/edwards25519 versus group/edwards25519vartime (same curve, independent code): a rare scalar or point for which Mul/Add/encoding disagree, or a `constantTime`/`purego` build-tag variant that disagrees with the default build. Do NOT touch geScalarMultVartime (already covered).",
  'C19c': "Focus on xof/keccak or xof/blake2xs (Clone, Reseed, Reset, Read/Write alternation, XORKeyStream with aliased or unequal-length buffers). Do NOT touch xof/blake2xb Reseed (already covered).",
  'C19d': "Focus on util/random random.Int / random.Bits (bit-length edge cases, rejection sampling, exact flag) and on how group code picks scalars/points from a stream (mod.Int.Pick, edwards25519 Scalar.Pick). Do NOT touch randstream.XORKeyStream's reader loop (already covered).",
  'C20c': "Focus on introducing a data race or order-dependent result in a read-only method (MarshalBinary, String, Equal, Clone, Mul with the object as operand) of scalars (group/mod Int, edwards25519 scalar), group/edwards25519vartime points, group/p256 points, or a BLS12-381 adapter point. Do NOT touch pairing/bn256 (already covered).",
  'C20d': "Focus on scheme-level objects shared for reading across goroutines: sign/bdn Mask and CachedMask, sign/cosi Mask, a shared Suite's methods, share.PriPoly/PubPoly methods other than Eval, sign/bls or sign/tbls verification with shared keys. Do NOT touch PubPoly.Eval (already covered).",
 },
 '3': {
  'C03d': "Focus on 'Equal if and only if identical encodings' and 'encoding never changes the value' for points held in non-normalised internal coordinates (projective / extended / Jacobian forms after Add/Mul) or for the identity and other rare values, in ONE group implementation. Do NOT touch util/encoding, group/internal/marshalling or the gnark scalar (already covered).",
  'C03e': "Focus on the WRITE side: MarshalTo of one point/scalar type, suite.Write / fixed-length struct encoding (util or group/internal code that writes), returned byte counts, rare values (identity, values with leading zero bytes) whose encoding length or content goes wrong. Do NOT touch getHex, PointUnmarshalFrom/ScalarUnmarshalFrom or the gnark scalar (already covered).",
  'C04d': "Focus on SCALAR decoders (UnmarshalBinary/UnmarshalFrom/SetBytes of scalars: lengths, values >= group order, mod.Int byte orders) or on the subgroup / on-curve checks of G2 or GT decoders (bn256, bn254, one BLS12-381 adapter). Do NOT touch group/p256, sign/anon or sign/cosi (already covered).",
  'C04e': "Focus on parsers/verifiers of composite untrusted messages other than anon and cosi: proof.HashVerify (proof/hash.go), proof/dleq, encrypt/ecies Decrypt, sign/eddsa Verify, sign/schnorr Verify, sign/bls Verify, vss Deal/EncryptedDeal decoding: a rare malformed or truncated input that panics.",
  'C09e': "Focus on plain BLS (sign/bls): Verify, AggregateSignatures, AggregatePublicKeys, BatchVerify - e.g. a signature or key that is semantically different but accepted, or an honest aggregate refused, for a rare combination. Do NOT touch sign/tbls Recover, sign/bdn, sign/cosi (already covered).",
  'C09f': "Focus on sign/tbls other than the 'seen' bookkeeping of Recover (SigShare index encoding/parsing, Sign, VerifyPartial, interplay with share.RecoverCommit/PubPoly) or on sign/bdn AggregateSignatures / coefficient derivation. Do NOT touch bdn AggregatePublicKeys, bdn Mask.Merge or sign/cosi (already covered).",
  'C09g': "Focus on sign/cosi other than SetMask/CountEnabled: Commit, AggregateCommitments, Challenge, Response, AggregateResponses, Sign, Verify's checks, AggregateMasks, policies' Check.",
  'C10e': "Focus on the encryption/authentication path of the deals in either VSS variant: dh.go (DH exchange, HKDF context, AEAD nonce), EncryptedDeal signature over the ephemeral key, decryptDeal's recipient/dealer binding. Do NOT touch verifyJustification, verifyResponse or cleanVerifiers (already covered).",
  'C10f': "Focus on VerifyDeal (index, threshold, session id, share-vs-commitment check) or on RecoverSecret / 'certified implies any t deals recover the secret' in either VSS variant, or on the session id computation. Do NOT touch verifyJustification, verifyResponse or cleanVerifiers (already covered).",
  'C11g': "Focus on the Pedersen DKG state machine for a FRESH key generation (share/dkg/pedersen/dkg.go and status.go): ProcessResponses / ProcessJustifications, the status matrix, eviction lists, computeResult and the final share/commitment sums. Do NOT touch the inner loop of ProcessDeals or the threshold used in the response phase (already covered).",
  'C11h': "Focus on the phases of the Pedersen Protocol driver (share/dkg/pedersen/protocol.go): TimePhaser / phase transitions, packets that arrive before or after their phase, the fast-sync start/finish conditions, what is sent when a phase has collected nothing. Do NOT touch Protocol.verify or the set type's isBad (already covered).",
  'C11i': "Focus on the late phases of the Rabin DKG (share/dkg/rabin/dkg.go): ProcessComplaintCommits, ProcessReconstructCommits, Finished, DistKeyShare (summing shares and commitments over QUAL). Do NOT touch ProcessSecretCommits or ProcessResponse (already covered).",
  'C12d': "Focus on sign/dss session binding and partial-signature verification: the session id (hash of keys/commitments/message), which public share a partial is verified against, partials for another message or session, the long-term vs random DKS roles. Do NOT touch PartialSig's own-index bookkeeping, Signature()'s threshold or share.RecoverSecret (already covered).",
  'C13c': "Focus on proof/dleq itself (NewDLEQProof, NewDLEQProofBatch, Verify: which points/bases enter the challenge hash, index handling in the batch) or on pvss DecShare / RecoverSecret index and threshold handling. Do NOT touch VerifyEncShareBatch or VerifyDecShareBatch (already covered).",
  'C14e': "Focus on the VERIFIER side of the predicates in proof/proof.go (repPred.verify, andPred.verify, orPred.verify: the check that the sub-challenges of an Or combine to the master challenge, variable bookkeeping shared across terms/branches) or on the prover's respond step. Do NOT touch And(), orPred.commit or proof/deniable.go (already covered).",
  'C14f': "Focus on proof/hash.go: how the protocol name, public points and commitments enter the challenge, trailing or missing bytes of a proof, HashVerify against a different protocol name or different public points. Do NOT touch proof/proof.go's And()/orPred.commit or proof/deniable.go (already covered).",
  'C18d': "Focus on making the CIRCL or the Kilic BLS12-381 adapter disagree with the other back-ends for rare inputs: hash-to-curve domain tags, scalar SetBytes/SetInt64 reduction, encoding of the identity or of GT elements, Mul by zero or by the group order. Do NOT touch pairing/bn256 or group/edwards25519 (already covered).",
  'C18e': "Focus on the `constantTime` build configuration (go build -tags constantTime: group/mod's Int goes through compatible/ and compatible/bigmod instead of math/big): make it disagree with the default build for rare values (leading zero bytes, values near the modulus, Exp/Inv/Div/Jacobi/SetBytes/byte order), while the default-build tests still pass and ideally the constantTime tests too.",
  'C19e': "Focus on xof/blake2xs or xof/blake2xb OTHER than Reseed: Clone (shared buffers), Write after Read, XORKeyStream with dst/src aliased or of unequal length, Read in chunks across the internal block boundary. Do NOT touch Reseed of blake2xb or keccak (already covered).",
  'C19f': "Focus on util/random Bits / Bytes (bit-length edge cases, the exact flag, lengths that are not a multiple of 8) and random.New with no readers or repeated calls; or on Scalar.Pick / mod.Int.Pick consuming the stream. Do NOT touch random.Int's loop or randstream.XORKeyStream's reader loop (already covered).",
  'C20e': "Focus on a data race or order-dependent result in read-only use of shared SCALARS (group/mod Int: lazy reduction, cached byte forms; edwards25519 scalar) or of a shared Suite object (XOF(), Hash(), RandomStream(), Point()/Scalar() factories with hidden shared state). Do NOT touch bn256 points, edwards25519vartime points, share.PubPoly.Eval or sign/bls (already covered).",
  'C20f': "Focus on a data race or order-dependent result in read-only methods of BLS12-381 adapter points (kilic, circl or gnark: MarshalBinary, Equal, String, Clone, Pair), of pairing/bn254 points, of share.PriPoly/PubPoly methods other than Eval, or of sign/bdn CachedMask / sign/cosi Mask queries. Do NOT touch bn256 points, edwards25519vartime points, PubPoly.Eval or sign/bls Verify (already covered).",
 },
}
TMPL = '''You are working in a scratch git worktree of the Go library dedis/kyber located at {d} . Work ONLY inside {d} (never touch /repo, /verif or any other directory; never run `git commit`, `git checkout` of other branches, or `git worktree` commands).

Here is a semantic property that the library is supposed to satisfy:

-----
{prop}
-----

YOUR TASK: produce a small, realistic change to the library's NON-TEST source files that BREAKS this property, subject to ALL of the following:
 1. The whole module still compiles (`go1.26.8 build ./...`).
 2. The existing test suite still passes with your change (run at least the tests of every package you touch and of the packages that import them; ideally the full suite `go1.26.8 test -vet=off -count=1 ./...`, ~3-4 minutes). Do not edit or delete existing tests.
 3. The change must need something SPECIFIC to manifest: a particular interleaving or message order, a crash/fault/corruption at a particular point, a multi-step sequence of operations, an unusual input or configuration, or two cooperating code sites that each look fine alone. It must NOT be something that ordinary use exposes at once. Think of a plausible refactoring slip, an over-eager optimisation, an off-by-one in a rarely taken branch, a dropped check that only matters with a misbehaving peer, etc. Keep it small (a few lines).
 4. Hint on where to look (you may deviate if you find something better inside the scope of the property): {hint}

DELIVERABLES, all inside {d}/OUT/ :
 - patch.diff : output of `git diff HEAD -- . ':!OUT'` for your source change only (no test files, nothing under OUT/).
 - a demonstration: a Go test file (name it demo_test.go and say in notes.md in which package directory it has to be placed) or a small self-contained Go program, which FAILS (or shows the violation) with your change applied and PASSES without it. Verify BOTH directions yourself (use `git stash`/`git stash pop` or `git apply -R` inside {d}).
 - notes.md : what the change is, why it breaks the property, exactly what is needed for it to manifest, and the exact commands you ran with their results (build, existing tests with the change, demo with and without the change).
Leave the worktree with your source change applied and the demo file placed, so it can be inspected.

ENVIRONMENT: the sandbox is offline. In every shell command first run: export GOFLAGS=-mod=mod GOPROXY=off GOSUMDB=off GOTOOLCHAIN=local ; use the `go1.26.8` binary (plain `go` is too old). Some tests need a minute; use generous timeouts. The machine is shared with other jobs: be patient with slow test runs. Some source files are guarded by the build tag `verif` (files named verif_*.go): ignore them, do not rely on them and do not change them.

When done, reply with a short summary: the files changed, one paragraph on the change and its trigger, and the test results.'''
wave = sys.argv[1]
props = {json.loads(l)['id']: json.loads(l) for l in open('/verif/properties.jsonl')}
for k, h in WAVES[wave].items():
    p = props[k[:3]]
    text = (k[:3] + " — " + p['title'] + "\n\nStatement: " + p['statement'] + "\n\nQuantified over: " + p['quantifier']['text']
            + "\n\nCode anchors (files): " + ", ".join(p['anchors']['files']))
    d = f'/tmp/seed-{k}'
    subprocess.run(['git', '-C', '/repo', 'worktree', 'add', '-q', '--detach', d, 'HEAD'], check=True)
    open(f'/tmp/agent-{k}.txt', 'w').write(TMPL.format(d=d, prop=text, hint=h))
    print(k)
