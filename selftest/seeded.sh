#!/bin/bash
# Run the checks against one kept seeded change: apply seeded/<id>/patch.diff to /repo, run the
# check(s) of the property it breaks, undo the change. Prints CAUGHT/MISSED per tier.
# usage: selftest/seeded.sh <id> [quick|thorough|both]
cd "$(dirname "$0")/.."
id=$1; tiers=${2:-quick}; [ "$tiers" = both ] && tiers="quick thorough"
d=$PWD/seeded/$id
prop=$(jq -r .property $d/meta.json)
# evaluation happens in a scratch worktree of /repo (so that /repo itself, which background sweeps
# build from, is never touched); pass REPO=1 to apply the patch to /repo itself instead
if [ -n "${REPO:-}" ]; then
  [ -z "$(git -C /repo status --porcelain)" ] || { echo "/repo is not clean"; exit 2; }
  git -C /repo apply $d/patch.diff || { echo "patch does not apply"; exit 2; }
  trap 'git -C /repo checkout -- . ; git -C /repo clean -fdq' EXIT
else
  W=/tmp/seedrun-$id-$$
  git -C /repo worktree add -q --detach $W HEAD || exit 2
  trap 'git -C /repo worktree remove --force $W 2>/dev/null; rm -rf $W' EXIT
  git -C $W apply $d/patch.diff || { echo "patch does not apply"; exit 2; }
  export VERIF_REPO=$W
  export VERIF_REPLAY_DIR=$W.replays
  trap 'git -C /repo worktree remove --force $W 2>/dev/null; rm -rf $W $W.replays' EXIT
fi
for tier in $tiers; do
  t0=$(date +%s)
  out=$(VERIF_KF_ALWAYS=${KF:-} ./run $prop $tier 2>&1); code=$?
  n=$(echo "$out" | grep -c '^VIOLATION')
  cls=$(echo "$out" | grep -m1 '^  class=' | sed 's/^  class=//')
  if [ $code -eq 1 ] && [ $n -gt 0 ]; then echo "CAUGHT $id $prop $tier in $(( $(date +%s)-t0 ))s: $n violation lines; first class $cls"; break
  else echo "MISSED $id $prop $tier (exit $code) in $(( $(date +%s)-t0 ))s"; echo "$out" | tail -3 | sed 's/^/    /'; fi
done
